#!/bin/bash
# usage: tools/seed_regress.sh [parallelism] [pattern]
# Re-runs, for every kept seeded change, the check(s) recorded in its meta.json (field caught_by) against /repo + patch (scratch copy)
# and requires a VIOLATION (exit 1); then every behaviour-preserving change under benign/ against all checks (must stay green).
par=${1:-4}; pat=${2:-.}
cd "$(dirname "$0")/.."
out=$(mktemp -d /tmp/seedregress-XXXXXX)
one() {
  d=$(cd "$1" && pwd); out=$2
  id=$(basename "$d")
  work=$(mktemp -d /tmp/seedrun-XXXXXX)
  cp -a /repo "$work/chg"
  if ! git -C "$work/chg" apply "$d/patch.diff" 2>/dev/null; then echo "$id PATCH-DOES-NOT-APPLY" > "$out/$id.res"; rm -rf "$work"; return; fi
  checks=$(python3 -c "import json,sys; print(' '.join(x.strip() for x in json.load(open('$d/meta.json'))['caught_by'].split(',') if x.strip()))")
  tier=$(python3 -c "import json; print(json.load(open('$d/meta.json')).get('tier','quick'))")
  if [ -z "$checks" ]; then echo "$id KNOWN-MISS (recorded as outside the stated bounds; see meta.json history)" > "$out/$id.res"; rm -rf "$work"; return; fi
  res=""
  for c in $checks; do
    o=$(cd /verif && MASA_REPO="$work/chg" VERIF_EVIDENCE_DIR="$work/ev" VERIF_REPLAY_DIR="$work/rp" ./check "$c" --tier "$tier" 2>&1); rc=$?
    n=$(echo "$o" | grep -c '^VIOLATION')
    res="$res $c:rc=$rc:violations=$n"
  done
  echo "$id$res" > "$out/$id.res"
  rm -rf "$work"
}
export -f one
ls -d seeded/* | grep -E -e "$pat" | xargs -P "$par" -I{} bash -c "one {} $out"
cat "$out"/*.res | sort
echo "--- seeds not reported by their own check:"
for f in "$out"/*.res; do id=$(basename "$f" .res); own=${id%%-*}; grep -q " $own:rc=1:violations=[1-9]\|KNOWN-MISS" "$f" || cat "$f"; done
echo "--- known misses (kept for the record, not claimed):"; grep -h KNOWN-MISS "$out"/*.res
rm -rf "$out"
