#!/bin/bash
# usage: tools/run_tier.sh <quick|thorough> <outdir> [parallelism]   -- runs every registered check of a tier, logs per property
tier=${1:-quick}; out=${2:-/tmp/verif-tier-$tier}; par=${3:-4}
mkdir -p "$out"
cd "$(dirname "$0")/.."
ls checks | grep -E '^c[0-9]+\.py$' | sed 's/.py//' | tr a-z A-Z | xargs -P "$par" -I{} sh -c "/usr/bin/time -f '%e s %M KB' ./check {} --tier $tier > $out/{}.log 2>&1; echo rc=\$? >> $out/{}.log"
for f in "$out"/C*.log; do echo "$(basename "$f" .log): $(grep -c 'VIOLATION\|UNDECIDED\|INCONCLUSIVE\|INFRASTRUCTURE' "$f") flagged; $(tail -3 "$f" | tr '\n' ' ' | cut -c1-220)"; done
