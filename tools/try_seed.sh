#!/bin/bash
# usage: tools/try_seed.sh <seed-dir> <check-id> [more check ids...]
# Confirms a seeded change (tests still pass, demo fails with it / passes without it) in a scratch copy,
# then runs the given quick checks against the changed copy (equivalent to git -C /repo apply; ./check; git -C /repo checkout -- .
# but leaves /repo untouched so that long background runs are not disturbed).
set -u
seed="$(cd "$1" && pwd)"; shift
work=$(mktemp -d /tmp/seedtest-XXXXXX)
trap 'rm -rf "$work"' EXIT
git -C /repo diff --quiet || { echo "/repo has uncommitted changes"; exit 2; }
git -C /repo apply --check "$seed/patch.diff" || { echo "PATCH DOES NOT APPLY"; exit 2; }
cp -a /repo "$work/orig"
cp -a /repo "$work/chg"
git -C "$work/chg" apply "$seed/patch.diff"
( cd "$work/chg" && make -k -j16 check > "$work/make.log" 2>&1 ); t=$(grep -E "^# (FAIL|ERROR)" "$work/make.log" | tr -d ' ' | tr '\n' ' ')
echo "tests with change: $t"
if [ -f "$seed/build_and_run.sh" ]; then
  ( cd "$work" && mkdir d1 d2 && cd d1 && cp "$seed"/demo.c* . 2>/dev/null; bash "$seed/build_and_run.sh" "$work/orig" > "$work/demo_orig.log" 2>&1 ); r1=$?
  ( cd "$work/d2" && cp "$seed"/demo.c* . 2>/dev/null; bash "$seed/build_and_run.sh" "$work/chg" > "$work/demo_chg.log" 2>&1 ); r2=$?
  echo "demo on original: rc=$r1 ($(tail -1 $work/demo_orig.log | cut -c1-80)); on changed: rc=$r2 ($(tail -1 $work/demo_chg.log | cut -c1-80))"
fi
# the checks are pointed at the changed scratch copy (MASA_REPO), which is /repo's tree + the patch; /repo itself stays untouched
for c in "$@"; do
  out=$(cd /verif && MASA_REPO="$work/chg" VERIF_EVIDENCE_DIR="$work/evidence" VERIF_REPLAY_DIR="$work/replays" ./check "$c" --tier quick 2>&1); rc=$?
  echo "check $c rc=$rc : $(echo "$out" | grep -c '^VIOLATION') violation line(s); $(echo "$out" | tail -1 | cut -c1-200)"
  echo "$out" | grep -A1 '^VIOLATION' | head -6 | cut -c1-300
  echo "$out" | grep '^INFRASTRUCTURE\|^UNDECIDED\|^INCONCLUSIVE' | head -4 | cut -c1-300
done
