#!/bin/bash
# usage: tools/try_benign.sh <dir-with-patch.diff> [check ids...]
# Applies a behaviour-preserving change to a scratch copy of /repo and runs the quick checks against it: every check must stay green
# (exit 0, no VIOLATION / INFRASTRUCTURE line).  /repo itself is not touched.
set -u
d="$(cd "$1" && pwd)"; shift
work=$(mktemp -d /tmp/benigntest-XXXXXX)
trap 'rm -rf "$work"' EXIT
cp -a /repo "$work/chg"
git -C "$work/chg" apply "$d/patch.diff" || { echo "PATCH DOES NOT APPLY"; exit 2; }
ids="$*"; [ -z "$ids" ] && ids=$(ls /verif/checks | grep -E '^c[0-9]+\.py$' | sed 's/.py//' | tr a-z A-Z)
mkdir -p "$work/logs"
echo $ids | tr ' ' '\n' | xargs -P 5 -I{} sh -c "cd /verif && MASA_REPO=$work/chg VERIF_EVIDENCE_DIR=$work/evidence VERIF_REPLAY_DIR=$work/replays ./check {} --tier quick > $work/logs/{}.log 2>&1; echo rc=\$? >> $work/logs/{}.log"
bad=0
for f in "$work"/logs/*.log; do
  n=$(grep -c '^VIOLATION\|^INFRASTRUCTURE\|^UNDECIDED\|^INCONCLUSIVE' "$f"); rc=$(tail -1 "$f")
  if [ "$n" != "0" ] || [ "$rc" != "rc=0" ]; then bad=1; echo "NOT GREEN $(basename "$f" .log): $rc; $(grep '^VIOLATION\|^INFRASTRUCTURE\|^UNDECIDED\|^INCONCLUSIVE\|^  key' "$f" | head -6 | cut -c1-400)"; fi
done
[ $bad = 0 ] && echo "ALL GREEN ($(echo $ids | wc -w) checks)"
exit $bad
