"""C03 Navier-Stokes family: sources = full viscous heat-conducting residual on the exact fields."""
import sys, os
sys.path.insert(0, os.path.join(os.path.dirname(os.path.abspath(__file__)), '..', 'mv'))
sys.path.insert(0, os.path.join(os.path.dirname(os.path.abspath(__file__)), '..'))
import terms as tm
import framework
import pde
from pde import X, Y, Z, TT, R_
from spec import fields, operators
from c02 import flow_family

FAMILY = {
    'navierstokes_2d_compressible': ('xy', False, False),
    'navierstokes_3d_compressible': ('xyz', False, False),
    'axisymmetric_navierstokes_compressible': ('rz', False, True),
    'axi_cns_transient': ('rz', True, True),
}


def viscous_of(name, P):
    return dict(mu=P['mu'], k=P['k'], R=P['R'], bulk=None)      # Stokes hypothesis: lambda = -2/3 mu


# As-built operators of the two axisymmetric viscous solutions (known findings, see known_findings.txt / DESIGN.md §6):
# shear stress tau_rz = mu du/dz (dw/dr missing), hoop-stress term -tau_tt/r missing in the radial momentum equation,
# and, for the steady solution only, the viscous work in the energy source has the opposite sign.
ASBUILT = {
    'axisymmetric_navierstokes_compressible': dict(tau_rz_without_dw_dr=True, no_hoop_stress=True, energy_viscous_work_sign_flipped=True),
    'axi_cns_transient': dict(tau_rz_without_dw_dr=True, no_hoop_stress=True),
}


def doc_fields(name, P, cl, transient, axi):
    if name == 'axisymmetric_navierstokes_compressible':
        return fields.axi_cns_fields(P)
    if axi:
        return fields.axi_euler_fields(P, transient)
    fn = ['rho', 'p'] + ['u', 'v', 'w'][:len(cl)]
    return {f: fields.roy(P, f, cl) for f in fn}


def body(chk):
    w = chk.world()
    chk.assumptions += ['real-arithmetic model of FP (formula layer, DESIGN.md §3.3)', 'sin/cos abstracted to points on the unit circle (sound)',
                        'admissibility: L != 0, Gamma != 1, R != 0, rho > 0 (r > 0 axisymmetric)',
                        'Newtonian stress with Stokes hypothesis (bulk -2/3 mu), Fourier flux with T = p/(rho R)']
    chk.bounds = dict(values='unbounded (all real parameter values and points satisfying the admissibility assumptions)', loops='none')
    val = flow_family(chk, w, FAMILY, viscous_of, doc_fields, asbuilt=ASBUILT)
    import c03_powerlaw
    # nsctpl: jets of the primitives + sources over abstract jets (IR compiled with -fno-inline so that the primitive members stay calls)
    val += c03_powerlaw.build(chk, chk.world(extra=('-fno-inline',)))
    import c09
    c09.add_type_purity(chk, ['navierstokes_2d', 'navierstokes_3d', 'navierstokes_4d', 'axisymmetric_navierstokes', 'axi_cns'])
    chk.solve_all()
    pde.validate_terms(chk, val, npoints=1 if chk.tier == 'quick' else 4)


if __name__ == '__main__':
    framework.main('C03', body)
