"""C13 Solution-name resolution ignores case, dashes and blanks, and nothing else.
Part 1: CBMC (C++ front end) on the verbatim src/masa_map.cpp with a bounded std::string stub.
Part 2: Engine A on masa_init with the normalised name opaque (first match wins; handle verbatim)."""
import sys, os, re, subprocess, time
sys.path.insert(0, os.path.join(os.path.dirname(os.path.abspath(__file__)), '..', 'mv'))
sys.path.insert(0, os.path.join(os.path.dirname(os.path.abspath(__file__)), '..'))
import terms as tm
from terms import T
import framework
import build
import pde
import sol as S
import registry as R
from exec import Ptr, ExecError, pc_term
from c12 import H

CB = os.path.join(build.VERIF, 'cbmc')


def named_namespaces(src):
    """CBMC's C++ front end rejects unnamed namespaces ('unique namespace not supported yet'): every `namespace {...}` of the translation unit is
    given a name and a using-directive after its closing brace (same lookup result; internal linkage is irrelevant for a single unit).
    Comments and string/character literals are skipped when braces are matched."""
    out, i, k = [], 0, 0
    pat = re.compile(r'namespace\s*\{')
    while True:
        m = pat.search(src, i)
        if m is None:
            out.append(src[i:])
            break
        # not inside a comment line
        ls = src.rfind('\n', 0, m.start()) + 1
        if '//' in src[ls:m.start()]:
            out.append(src[i:m.end()])
            i = m.end()
            continue
        depth, j = 1, m.end()
        while j < len(src) and depth:
            c = src[j]
            if src.startswith('//', j):
                j = src.find('\n', j)
                j = len(src) if j < 0 else j
                continue
            if src.startswith('/*', j):
                j = src.find('*/', j) + 2
                continue
            if c in '"\'':
                q = c
                j += 1
                while j < len(src) and src[j] != q:
                    j += 2 if src[j] == '\\' else 1
            elif c == '{':
                depth += 1
            elif c == '}':
                depth -= 1
            j += 1
        k += 1
        name = 'verif_unnamed_ns_%d' % k
        out.append(src[i:m.start()] + 'namespace %s {' % name + src[m.end():j] + ' using namespace %s;' % name)
        i = j
    return ''.join(out), k


_prepared = {}


def prepared_unit(scratch):
    """directory holding the unit CBMC reads: src/masa_map.cpp verbatim, or with its unnamed namespaces named"""
    if scratch in _prepared:
        return _prepared[scratch]
    src = open(os.path.join(build.REPO, 'src', 'masa_map.cpp')).read()
    new, k = named_namespaces(src)
    d = None
    if k:
        d = os.path.join(scratch, 'cbmc-unit')
        os.makedirs(d, exist_ok=True)
        with open(os.path.join(d, 'masa_map.cpp'), 'w') as fh:
            fh.write(new)
    _prepared[scratch] = (d, k)
    return d, k


def run_cbmc(N, witness=False, trace=False, timeout=3600, unit_dir=None, concrete=None):
    cmd = ['cbmc', '--cpp11', '-DSWIG', '-DVERIF_N=%d' % N, '-DVERIF_STR_CAP=%d' % N] + (['-DVERIF_CONCRETE="%s"' % concrete] if concrete is not None else []) + [ '-I', os.path.join(CB, 'stub')] + (['-I', unit_dir] if unit_dir else []) + ['-I', os.path.join(build.REPO, 'src'), '-I', build.REPO,
           os.path.join(CB, 'harness.cpp'), '--unwind', str(N + 4), '--unwinding-assertions', '--drop-unused-functions']
    if witness:
        cmd.insert(2, '-DWITNESS')
    if trace:
        cmd.append('--trace')
    t0 = time.time()
    try:
        p = subprocess.run(cmd, stdout=subprocess.PIPE, stderr=subprocess.STDOUT, universal_newlines=True, timeout=timeout, cwd=CB)
        out = p.stdout
    except subprocess.TimeoutExpired:
        out = 'TIMEOUT'
    return out, time.time() - t0, ' '.join(cmd)


def parse_trace(out, N):
    """input string of the counterexample: last assignments to in.buf[i] before masa_map is entered, and n"""
    head = out.split('MASA::masa_map')[0] if 'MASA::masa_map' in out else out
    buf = {}
    n = None
    for m in re.finditer(r'in\.buf\[(\d+)l?\]=(?:\'(.)\'|(-?\d+))', head):
        i = int(m.group(1))
        buf[i] = ord(m.group(2)) if m.group(2) else int(m.group(3)) & 0xff
    for m in re.finditer(r'\bn=(\d+)u', head):
        n = int(m.group(1))
    if n is None:
        n = N
    return bytes(buf.get(i, 0) for i in range(n))


def reference(b):
    out = bytearray()
    for c in b:
        if 65 <= c <= 90:
            c += 32
        if c not in (45, 32):
            out.append(c)
    return bytes(out)


def body(chk):
    N = 6 if chk.tier == 'quick' else 8
    chk.level = 'model_checking'
    chk.assumptions += ['std::string modelled by the bounded value-semantics stub /verif/cbmc/stub/string (find/replace/operator[] per the standard); std::tolower of the C locale',
                        'CBMC C++ front end with -DSWIG (removes one template-template parameter of nsctpl_fwd.hpp that CBMC cannot type-check; masa_map.cpp is verbatim)',
                        'strings longer than the bound are outside the claim (the functions have no length-dependent behaviour other than the loops covered by the unwinding assertions)']
    chk.bounds = dict(string_length='<= %d bytes, every byte value except NUL' % N, unwind=N + 4, unwinding_assertions=True)
    # ---- part 1: CBMC
    unit_dir, renamed = prepared_unit(chk.scratch)
    if renamed:
        chk.assumptions.append('%d unnamed namespace(s) of masa_map.cpp were given names for the CBMC front end (textual, lookup-preserving)' % renamed)
    out, dt, cmd = run_cbmc(N, unit_dir=unit_dir)
    verdict = 'unsat' if 'VERIFICATION SUCCESSFUL' in out else ('sat' if 'VERIFICATION FAILED' in out else 'error')
    nprops = re.search(r'\*\* (\d+) of (\d+) failed', out)
    ob = framework.Ob('masa_map:cbmc:len<=%d' % N, 'prop', None, 'unsat', dict(obligation='masa_map(s) == filter(lowercase(s), c not in {-, blank}) for every s with |s| <= %d' % N, checker=cmd,
                                                                               properties=int(nprops.group(2)) if nprops else None), None, 'masa_map:normal-form', ['MASA::masa_map', 'MASA::uptolow', 'MASA::remove_line', 'MASA::remove_whitespace'])
    ob.result = dict(verdict=verdict, time=dt, output=out[-3000:] if verdict != 'unsat' else '', solver='cbmc 6.11 (minisat)', hash='cbmc-%d' % N)
    chk.obs.append(ob)
    chk.functions.update(ob.fns)
    if verdict == 'unsat':
        ob.status = 'discharged'
    elif verdict == 'error':
        ob.status = 'error'
        chk.infra.append('cbmc did not produce a verdict: ' + out[-800:])
    else:
        tout, _, _ = run_cbmc(N, trace=True, unit_dir=unit_dir)
        failed = re.findall(r'\[(\S+)\] line \d+ (.*): FAILURE', tout)
        s_in = parse_trace(tout, N)
        # replay on the real library
        import replay as rp
        esc = ''.join('\\x%02x' % c for c in s_in)
        src = ('#include <masa_internal.h>\n#include <cstdio>\n#include <string>\nint main(){ std::string s("%s", %d); MASA::masa_map(&s); printf("R out "); for(size_t i=0;i<s.size();i++) printf("%%02x",(unsigned char)s[i]); printf("\\n"); return 0;}\n' % (esc, len(s_in)))
        rc, o, e = chk.lib().run(src)
        got = None
        for line in o.split('\n'):
            if line.startswith('R out'):
                got = bytes.fromhex(line[5:].strip())
        exp = reference(s_in)
        if got is not None and got != exp:
            path = chk.save_replay(ob, dict(input=repr(s_in), library=repr(got), reference=repr(exp), cbmc_failed=failed[:5]), src)
            chk.report_violation('masa_map:normal-form', path, 'masa_map(%r) = %r, reference normal form %r' % (s_in, got, exp), ob)
        else:
            unwinding = [f for f in failed if 'unwinding' in f[1]]
            if unwinding:
                ob.status = 'error'
                chk.infra.append('unwinding assertion failed (bound too small): %r' % unwinding[:2])
            else:
                ob.status = 'inconclusive'
                chk.inconclusive.append(ob)
                print('INCONCLUSIVE obligation=%s CBMC counterexample %r did not reproduce on the real library (got %r)' % (ob.name, s_in, got))
    # ---- part 1c: the bounded claim rests on the assumption that the unit has no length-dependent behaviour other than its loops.  That
    #      assumption is checked on the clang IR of the unit: every integer comparison with a constant c > N (a possible length threshold
    #      beyond the bound) yields inputs -- a valid name decorated to the lengths c-1 .. c+2 and to 80 characters (the Fortran padding) --
    #      on which the real library must produce the reference normal form
    try:
        import json as _json
        ird = os.path.join(chk.scratch, 'ir-masa-map')
        os.makedirs(ird, exist_ok=True)
        build.compile_ir(ird, units=['masa_map'])
        jm = _json.load(open(os.path.join(ird, 'masa_map.json')))
        thresholds = set()
        for fname_, f_ in jm['functions'].items():
            for b_ in f_.get('blocks', []):
                for ins_ in b_:
                    if ins_.get('op') in ('icmp', 'switch'):
                        for o_ in ins_.get('ops', []):
                            if isinstance(o_, dict) and o_.get('k') == 'ci':
                                try:
                                    c_ = int(o_['v'])
                                except Exception:
                                    continue
                                if N < c_ < 100000 and c_ not in (65, 90, 97, 122, 32, 45, 255, 127, 128, 256):      # (character codes of the case mapping / separators)
                                    thresholds.add(c_)
                                elif N < c_ < 100000:
                                    thresholds.add(c_)
        chk.bounds['integer_constants_above_the_length_bound_in_the_unit'] = sorted(thresholds)[:20]
        lens = sorted(set([80] + [c_ + d_ for c_ in thresholds for d_ in (-1, 0, 1, 2) if 8 <= c_ + d_ <= 4096]))[:40]
        base = 'Euler_1D'
        cases = []
        for L_ in lens:
            pad = max(0, L_ - len(base))
            cases += [base + ' ' * pad, ' ' * pad + base, base[:4] + '-' * pad + base[4:]]
        import replay as rp
        body_ = ['const char* in_[] = {%s};' % ', '.join('"%s"' % c_ for c_ in cases),
                 'for(int i = 0; i < %d; i++) { std::string s(in_[i]); MASA::masa_map(&s); printf("R %%d [%%s]\\n", i, s.c_str()); }' % len(cases)]
        src = '#include <masa_internal.h>\n#include <cstdio>\n#include <string>\nint main(){\n%s\n return 0;}\n' % '\n'.join(body_)
        rc, o, e = chk.lib().run(src)
        wrong = [(i, cases[i]) for i in range(len(cases)) if ('R %d [euler_1d]' % i) not in o]
        tob = framework.Ob('masa_map:no-length-threshold-beyond-the-bound:inputs-at-every-integer-constant-of-the-unit', 'prop', None, 'unsat',
                           dict(obligation='constants %r -> %d long inputs on the real library' % (sorted(thresholds)[:10], len(cases))), None, 'masa_map:length-threshold', ['MASA::masa_map'])
        tob.result = dict(verdict='unsat' if not wrong else 'sat', time=0.0, output='', solver='IR constant scan + real library', hash='threshold-scan')
        chk.obs.append(tob)
        if not wrong:
            tob.status = 'discharged'
        else:
            path = chk.save_replay(tob, dict(inputs=[w_[1] for w_ in wrong[:5]], stdout=o[-1500:], thresholds=sorted(thresholds)[:10]), src)
            chk.report_violation('masa_map:length-threshold', path, 'masa_map(%r) (length %d) is not the reference normal form euler_1d; integer constants above the bound in the unit: %r' % (
                wrong[0][1], len(wrong[0][1]), sorted(thresholds)[:6]), tob)
    except Exception as e_:
        chk.notes.append('length-threshold scan not run: %r' % (e_,))
    # ---- part 1b (thorough): CONCRETE inputs far beyond the symbolic length bound -- a name as the Fortran interface passes it (blank-padded
    #      character(len=80)) and a 66-character decorated name: CBMC executes the verbatim unit on them (constant propagation) and the
    #      result must be the reference normal form.  Length-dependent behaviour above the bound is otherwise outside the claim.
    if chk.tier != 'quick':
        longs = ['Euler-1D'.ljust(80), ('-' * 30) + 'Heat Eq_1D-steady const' + (' ' * 13)]
        chk.bounds['concrete_long_inputs'] = [len(x) for x in longs]
        for S_ in longs:
            lout, ldt, lcmd = run_cbmc(len(S_), unit_dir=unit_dir, concrete=S_, timeout=1200)
            lv = 'unsat' if 'VERIFICATION SUCCESSFUL' in lout else ('sat' if 'VERIFICATION FAILED' in lout else ('timeout' if lout == 'TIMEOUT' else 'error'))
            lob = framework.Ob('masa_map:cbmc:concrete-input-of-length-%d' % len(S_), 'prop', None, 'unsat', dict(obligation='masa_map(%r) == reference normal form' % S_, checker=lcmd), None,
                               'masa_map:long-input', ['MASA::masa_map'])
            lob.result = dict(verdict=lv, time=ldt, output=lout[-1500:] if lv != 'unsat' else '', solver='cbmc 6.11 (minisat)', hash='cbmc-long-%d' % len(S_))
            chk.obs.append(lob)
            if lv == 'unsat':
                lob.status = 'discharged'
            elif lv == 'sat':
                import replay as rp
                src = ('#include <masa_internal.h>\n#include <cstdio>\n#include <string>\nint main(){ std::string s("%s"); int rc = MASA::masa_map(&s); printf("R out %%d [%%s]\\n", rc, s.c_str()); return 0;}\n' % S_)
                rc, o, e = chk.lib().run(src)
                exp = reference(S_.encode()).decode()
                if ('[%s]' % exp) not in o:
                    path = chk.save_replay(lob, dict(input=S_, stdout=o[-500:], reference=exp), src)
                    chk.report_violation('masa_map:long-input', path, 'masa_map(%r): library output %r, reference normal form %r' % (S_, o.strip()[-120:], exp), lob)
                else:
                    lob.status = 'inconclusive'
                    chk.inconclusive.append(lob)
                    print('INCONCLUSIVE obligation=%s CBMC failure did not reproduce on the real library' % lob.name)
            else:
                lob.status = 'undecided'
                chk.undecided.append(lob)
    # witness twin: the end of the harness must be reachable
    wout, wdt, wcmd = run_cbmc(min(N, 4), witness=True, unit_dir=unit_dir)
    wob = framework.Ob('masa_map:cbmc:WITNESS', 'witness', None, 'sat', None, None, None)
    wob.result = dict(verdict='sat' if 'WITNESS: end of harness reachable: FAILURE' in wout else 'unsat', time=wdt, output='', solver='cbmc', hash='cbmc-witness')
    chk.obs.append(wob)
    chk.classify(wob)
    chk.extra_cov.update(states=256 ** 0 + sum(255 ** k for k in range(1, N + 1)), transitions=int(nprops.group(2)) if nprops else 1, traces_validated_against_impl=0,
                         cbmc_seconds=round(dt, 1))
    # ---- part 2: Engine A -- resolution by first match on the normalised name; handle used verbatim
    w = chk.world()
    NAME = tm.sym('NAME', 'S')
    scalars = ('double',) if chk.tier == 'quick' else ('double', 'long double')
    for scalar in scalars:
        # two registered handles, the second one selected: H symbolic covers a new handle, the selected one and a registered non-selected one
        st, handles, objs = R.build(w, scalar, ['euler_1d', 'euler_2d'], symbolic=True)
        S.install_api_models(w)
        st0, sols, _ = w.catalogue(scalar)
        names = [s['name'] for s in sols]
        finit = S.api_fn(w, 'masa_init', scalar, 'std::string, std::string')
        ptr0, ents0 = R.snapshot(w, st, scalar)
        paths = w.ex.explore(st, lambda ex: ex.call(finit, [S.new_string(ex, H), S.new_string(ex, NAME)]), 8 * len(names) + 16)
        chk.functions.add(finit)
        bad, seen = [], set()
        why = ''
        for p in paths:
            pc = pc_term(p['pc'])
            # which catalogue name did the normalised name compare equal to on this path?
            eqs = [(c, b) for c, b in p['pc'] if c.op == 'eq' and any(x.op == 'uf' and x.p == 'masa_map' for x in c.a)]
            hit = [[x for x in c.a if x.op == 'str'][0].p for c, b in eqs if b]
            misses = [[x for x in c.a if x.op == 'str'][0].p for c, b in eqs if not b]
            if p['terminal'] is not None:
                # no match: every catalogue name must have been compared and rejected, and NOTHING is registered
                # (the error discipline itself -- message, status, exception build -- is C16)
                ptr1, ents1 = R.snapshot(w, p['st'], scalar)
                if hit or sorted(misses) != sorted(names):
                    bad.append(pc)
                    why = 'fatal although the normalised name matched %r' % hit
                elif (ptr1, ents1) != (ptr0, ents0):
                    bad.append(pc)
                    why = 'a name that matches no catalogue entry changed the registry: %r -> %r' % (sorted(ents0), sorted(ents1))
                continue
            if p['error'] is not None or len(hit) != 1:
                bad.append(pc)
                why = str(p['error'])
                continue
            seen.add(hit[0])
            ptr1, ents1 = R.snapshot(w, p['st'], scalar)
            d = w.describe(p['st'], ptr1, scalar)
            first = misses == names[:names.index(hit[0])]
            key_ok = ('H' in ents1 and ents1['H'] == ptr1) or any(h.p in ents1 and ents1[h.p] == ptr1 for h in handles)
            if d['name'] != hit[0] or not first or not key_ok:
                bad.append(pc)
                why = 'matched %s but selected %s (first-match=%s, handle verbatim=%s)' % (hit[0], d['name'], first, key_ok)
        if seen != set(names):
            bad.append(tm.TRUE)
            why = 'names never selected: %r' % sorted(set(names) - seen)[:3]
        chk.paths_clean('resolution<%s>:masa_init(H,NAME)-selects-the-first-catalogue-entry-equal-to-normalise(NAME)-handle-verbatim' % scalar, bad, key='resolution', family='resolution',
                        sample=dict(obligation='masa_init(H, NAME) with NAME symbolic', paths=len(paths), why=why),
                        replay=resolution_replay(chk, scalar, why))
    chk.solve_all()


def resolution_replay(chk, scalar, why):
    def replay(ob, model):
        import replay as rp
        cxx = rp.SCALAR_CXX[scalar]
        lines = ['masa_init<Scalar>(" My-Handle ","Euler_  1D--"); std::string n; masa_get_name<Scalar>(&n); printf("\\nR name %s\\n", n.c_str());',
                 'int caught=0, ghost=0; try { masa_init<Scalar>("ghost","no_such_solution"); } catch(int e) { caught=1; } try { masa_select_mms<Scalar>("ghost"); ghost=1; } catch(int e) { ghost=0; } printf("R nothing_registered %d\\n", caught==1 && ghost==0);',
                 'masa_init<Scalar>("other","HEATEQ_2D-steady_ const"); masa_get_name<Scalar>(&n); printf("R name2 %s\\n", n.c_str());',
                 'masa_select_mms<Scalar>(" My-Handle "); masa_get_name<Scalar>(&n); printf("R back %s\\n", n.c_str());',
                 # a registered handle that is NOT the current selection is re-initialised with a decorated name: the resolved solution is the selected one
                 'masa_select_mms<Scalar>("other"); masa_init<Scalar>(" My-Handle "," EULER-3d "); masa_get_name<Scalar>(&n); printf("R reinit %s\\n", n.c_str());']
        src = '#include <masa.h>\n#include <cstdio>\n#include <string>\nusing namespace MASA;\ntypedef %s Scalar;\nint main(){\n%s\n return 0;}\n' % (cxx, '\n'.join(lines))
        from replay import Lib
        rc, out, err = Lib(chk.scratch, extra=('-DMASA_EXCEPTIONS',)).run(src)
        expect = ['R name euler_1d', 'R nothing_registered 1', 'R name2 heateq_2d_steady_const', 'R back euler_1d', 'R reinit euler_3d']
        missing = [e for e in expect if e not in out]
        if missing:
            path = chk.save_replay(ob, dict(expected=expect, stdout=out[-1500:], why=why), src)
            return dict(reproduced=True, path=path, detail='%s; real library: %r missing' % (why, missing))
        return dict(reproduced=False, path=None, detail=why)
    return replay


if __name__ == '__main__':
    framework.main('C13', body)
