"""C05 Spalart-Allmaras solutions: sources are the residual of the RANS/FANS-SA model."""
import sys, os
sys.path.insert(0, os.path.join(os.path.dirname(os.path.abspath(__file__)), '..', 'mv'))
sys.path.insert(0, os.path.join(os.path.dirname(os.path.abspath(__file__)), '..'))
from fractions import Fraction
import terms as tm
from terms import T, D
import framework
import pde
import sweep
from pde import X, Y, TT
from spec import operators

ETA = tm.sym('eta')


def rans_sa(chk, w, val):
    for scalar in ('double', 'long double'):
        v = pde.SolView(chk, w, 'rans_sa', scalar, cache_prefix=None)
        P = v.P
        u = v.term('eval_exact_u', [ETA])
        nu = v.term('eval_exact_v', [ETA])
        ref = operators.sa_channel(u, nu, ETA, P)
        A = [tm.cmp('gt', ETA, tm.ZERO), tm.cmp('lt', ETA, tm.ONE), tm.cmp('gt', nu, tm.ZERO), tm.cmp('gt', P['re_tau'], tm.ZERO), tm.cmp('gt', P['kappa'], tm.ZERO),
             tm.cmp('gt', P['sigma'], tm.ZERO), tm.cmp('gt', P['cv1'], tm.ZERO), tm.cmp('gt', P['cw3'], tm.ZERO)]
        ranges = {'eta': (Fraction(1, 5), Fraction(4, 5))}
        names = list(P) + ['eta']
        for meth, r in (('eval_q_u', ref['Q_u']), ('eval_q_v', ref['Q_v'])):
            lib = v.term(meth, [ETA])
            sweep.pathwise_identity(chk, 'rans_sa<%s>:%s' % (scalar, meth), v.last_paths, r, A, names, key='rans_sa:%s' % meth, family='rans_sa',
                                    replay=pde.make_replay(chk, v, meth, [ETA], lib, r, ranges), ranges=ranges)
            val.append((v, meth, [ETA], lib))
        val += [(v, 'eval_exact_u', [ETA], u), (v, 'eval_exact_v', [ETA], nu)]


def body(chk):
    w = chk.world()
    chk.assumptions += ['real-arithmetic model of FP (formula layer)', 'admissibility: eta in (0,1), nu>0, Re_tau>0, kappa>0, sigma>0 (channel); rho>0, nu_sa>0, mu>0, x,y>0 (FANS)',
                        'pow(.,1/6), sqrt, exp, log opaque atoms with sound axioms; cut-point lemmas each proved by their own query (DESIGN.md §3.3)']
    chk.bounds = dict(values='unbounded', loops='none')
    val = []
    rans_sa(chk, w, val)
    import c05_fans
    c05_fans.build(chk, w, val)
    # wall-bounded FANS: continuity, both momentum equations and the nu_sa equation on every change; the energy equation only in the thorough tier
    eqs = ('rho', 'rho_u', 'rho_v', 'nu') if chk.tier == 'quick' else ('rho', 'rho_u', 'rho_v', 'nu', 'rho_e')
    chk.bounds['fans_wall_bounded_equations'] = list(eqs)
    c05_fans.wall_bounded(chk, w, val, eqs=eqs)
    import c09
    c09.add_type_purity(chk, ['rans_sa', 'fans_sa'])
    chk.solve_all()
    pde.validate_terms(chk, val, ranges={'eta': (Fraction(1, 5), Fraction(4, 5))}, npoints=1 if chk.tier == 'quick' else 3)


if __name__ == '__main__':
    framework.main('C05', body)
