"""C10 Evaluation is a pure function of (solution, current parameters, point)."""
import sys, os, json, re
from fractions import Fraction
sys.path.insert(0, os.path.join(os.path.dirname(os.path.abspath(__file__)), '..', 'mv'))
sys.path.insert(0, os.path.join(os.path.dirname(os.path.abspath(__file__)), '..'))
import terms as tm
from terms import T
import framework
import pde
import sol as S
import smt
import models
from models import VecVal
from exec import Ptr, NULL, ExecError, UnwindBound, pc_term, merge_paths
from spec import api as A
import c15

OTHER_CAPS = json.load(open(os.path.join(os.path.dirname(os.path.abspath(__file__)), '..', 'spec', 'capabilities.json')))

HERE = os.path.dirname(os.path.abspath(__file__))


def virtual_overrides(w, sol):
    """(slot function name, method, canonical sig) for every evaluator slot the class overrides"""
    out = []
    for n in w.vtable_slots(sol):
        if not n:
            continue
        d = w.models.demangled(n)
        pv = A.parse_virtual(d, sol['scalar'])
        if pv and pv[0] != 'manufactured_solution' and pv[1].startswith('eval_'):
            out.append((n, pv[1], pv[2]))
    return out


def vec_snapshot(st, sol):
    snap = {}
    for vn, (idx, a) in sol['vecs'].items():
        if isinstance(a, Ptr):
            v = st.side.get((a.rid, a.off))
            if isinstance(v, VecVal):
                snap[vn] = (v.n, tuple(st.mem.get((v.buf, i * v.es), (0, None))[1] for i in range(v.n)))
    return snap


def symbolize_vecs(st, sol, n=3):
    """vector parameters: length n with symbolic contents"""
    syms = {}
    for vn, (idx, a) in sol['vecs'].items():
        if isinstance(a, Ptr):
            v = st.side_mut((a.rid, a.off))
            v.n = n
            st.mut(v.buf).size = n * v.es
            for i in range(n):
                s = tm.sym('%s[%d]' % (vn, i))
                st.mem[(v.buf, i * v.es)] = (v.es, s)
                syms['%s[%d]' % (vn, i)] = s
    return syms


def install_rtbis_summary(w, scalar):
    """sod_1d::rtbis is summarised as an uninterpreted function of its arguments and of every object field that
    func() reads (found by executing func once); its frame (no stores into the object) is checked by executing
    one loop iteration in C08.  Only used to keep C10's exploration finite."""
    names = [n for n in w.prog.functions if re.search(r'sod_1d<%s>::rtbis\(' % re.escape(scalar), w.models.demangled(n))]
    fnames = [n for n in w.prog.functions if re.search(r'sod_1d<%s>::func\(' % re.escape(scalar), w.models.demangled(n))]
    if not names or not fnames:
        return

    def summary(ex, args, inst):
        this = args[0]
        ft = ex.call(fnames[0], [this, tm.sym('rtbis:p')])
        deps = [t for t in tm.topo([ft]) if t.op in ('sym', 'undef') and t.p != 'rtbis:p' and t.p != 'PI']
        return tm.uf('rtbis', *([a if isinstance(a, T) else tm.iconst(a) for a in args[1:]] + sorted(deps, key=lambda t: t.id)))
    w.ex.opaque[names[0]] = summary


def body(chk):
    w = chk.world()
    w.models.callback_hook = c15.callback_hook
    chk.assumptions += ['every IR operation is a deterministic function of its operands (fixed rounding mode; no volatile/rdtsc/statics in the slices)',
                        'object state before the call: registered parameters = named symbols P; every other FP member that ANY method of the class writes (caches, scratch) = independent fresh symbols (arbitrary history); members only the constructor writes keep their constructed constants',
                        'vector parameters: length 3 with symbolic contents', 'sod_1d::rtbis summarised as an uninterpreted function of its arguments and the fields func() reads']
    chk.bounds = dict(arguments='symbolic', object_state='all members symbolic', vector_length=3, paths_per_evaluator='<= 64')
    skipped = []
    for scalar in ('double', 'long double'):
        install_rtbis_summary(w, scalar)
        st0, sols, _ = w.catalogue(scalar)
        ex = w.ex
        for s in sols:
            name = s['name']
            if name in ('masa_test_function', 'masa_uninit'):
                continue
            v = pde.RegView(chk, w, name, scalar)        # every non-parameter FP member symbolised as cache@off
            vsyms = symbolize_vecs(v.st, s)
            # pass 1: which members does any method of the class (evaluators, init_var) write?  Members that only the
            # constructor writes are instance constants (e.g. rans_sa::etam); they keep their constructed values.
            written = set()
            methods = virtual_overrides(w, s)
            initv = [n for n in w.vtable_slots(s) if n and re.search(r'::init_var\(\)$', w.models.demangled(n))]
            for fn, meth, sig in methods + [(n, 'init_var', '') for n in initv]:
                try:
                    for p in ex.explore(v.st, lambda ex: ex.call(fn, [s['ptr']] + list(c15.sym_args(sig))), 64):
                        for wr in p['st'].writes[len(v.st.writes):]:
                            if wr[0] == s['ptr'].rid:
                                written.add(wr[1])
                except ExecError:
                    pass
            stc = w.find(scalar, name)[0]
            for (rid, off), (sz, val) in list(v.st.mem.items()):
                if rid == s['ptr'].rid and isinstance(val, T) and val.op == 'sym' and val.p.startswith('cache@') and off not in written:
                    v.st.mem[(rid, off)] = stc.mem[(rid, off)]
            vec0 = vec_snapshot(v.st, s)
            paddr = {n: a for n, (i, a) in s['params'].items() if isinstance(a, Ptr)}
            allowed = set(v.P.values()) | set(vsyms.values())
            defaults = {}
            for pn_, a_ in paddr.items():
                e_ = stc.mem.get((a_.rid, a_.off))
                if e_ is not None and isinstance(e_[1], T) and tm.isc(e_[1]):
                    defaults[pn_] = e_[1].p
            for fn, meth, sig in methods:
                args = c15.sym_args(sig)
                argset = set(a for a in args if isinstance(a, T))
                try:
                    paths = ex.explore(v.st, lambda ex: ex.call(fn, [s['ptr']] + list(args)), 64)
                except UnwindBound as e:
                    skipped.append('%s:%s(%s)' % (name, meth, sig))
                    continue
                chk.functions.add(fn)
                tag = '%s<%s>:%s(%s)' % (name, scalar, meth, sig)
                bad_frame, bad_exec = [], []
                why = ''
                for p in paths:
                    pc = pc_term(p['pc'])
                    if p['error'] is not None or p['terminal'] is not None:
                        bad_exec.append(pc)
                        why = str(p['error'] or p['terminal'])
                        continue
                    for n2, a2 in paddr.items():
                        if p['st'].mem.get((a2.rid, a2.off), (0, None))[1] is not v.P[n2]:
                            bad_frame.append(pc)
                            why = 'registered parameter %s is overwritten with %s' % (n2, tm.show(p['st'].mem[(a2.rid, a2.off)][1], 3))
                    if vec_snapshot(p['st'], s) != vec0:
                        bad_frame.append(pc)
                        why = 'vector parameter modified'
                    for wr in p['st'].writes[len(v.st.writes):]:
                        k = p['st'].regions[wr[0]].kind
                        if k in ('global', 'ext') or (wr[0] < v.st.next_rid and wr[0] != s['ptr'].rid and k not in ('alloca',)):
                            bad_frame.append(pc)
                            why = 'store outside the object: region %s' % p['st'].regions[wr[0]].name
                # determinism: the merged result may mention only parameters, vector contents, arguments (and PI / callbacks of them)
                good = [p for p in paths if p['error'] is None and p['terminal'] is None]
                dirty = []
                if good:
                    res = merge_paths(good)
                    if isinstance(res, T):
                        for t in tm.topo([res]):
                            if t.op == 'undef' or (t.op == 'sym' and t not in allowed and t not in argset and t.p != 'PI' and not t.p.startswith('FP_')):
                                dirty.append(t)
                api = None
                rp_ = purity_replay(chk, scalar, name, meth, sig, why)
                chk.paths_clean('%s:executes' % tag, bad_exec, key='%s:%s:exec' % (name, meth), family='exec', replay=rp_)
                chk.paths_clean('%s:frame(parameters,vectors,globals-unchanged)' % tag, bad_frame, key='%s:%s:frame' % (name, meth), family='frame',
                                sample=dict(obligation='%s frame' % tag, paths=len(paths), why=why), replay=rp_)
                if not dirty:
                    chk.paths_clean('%s:result-mentions-only-parameters-and-arguments' % tag, [], key='%s:%s:determinism' % (name, meth), family='determinism',
                                    sample=dict(obligation='%s determinism' % tag, leaves='subset of P u args'))
                else:
                    # two-copy query: same parameters and arguments, independent cache/undef symbols
                    m = {t: tm.sym('copy2:' + t.p, t.sort) for t in dirty}
                    res2 = tm.subst([res], m)[0]
                    enc = smt.Encoder()
                    script = enc.script([], [tm.cmp('ne', res, res2)])
                    ob = framework.Ob('%s:two-copy-determinism' % tag, 'prop', script, 'unsat',
                                      dict(obligation='%s determinism' % tag, depends_on=[t.p for t in dirty][:5]), rp_, '%s:%s:determinism' % (name, meth), [fn], 20, family='determinism')
                    ob.result = smt.run_solver(script, 20, workdir=chk.scratch, tag=chk.pid)
                    if ob.result['verdict'] in ('timeout', 'unknown'):
                        # the solver did not finish: look for a concrete witness of the dependence (two values of the stale members,
                        # everything else equal) and let the replay on the real library decide whether it is reported
                        w_ = numeric_dependence(res, res2, [t for t in tm.topo([res, res2]) if t.op == 'sym'], chk.seed, defaults)
                        if w_ is None:
                            # the dependence may sit on a path that only a thin region of parameters/points selects: search a point under the
                            # path condition of each path whose own result mentions a stale member
                            w_ = path_dependence(chk, good, dirty, m, defaults, argset)
                            if w_ is not None:
                                ob.witness = w_
                        if w_ is not None:
                            ob.result = dict(verdict='sat', time=ob.result['time'], output='', solver='z3 (timeout) + numeric witness of dependence on %s' % [t.p for t in dirty][:3], hash=ob.result.get('hash'))
                    chk.obs.append(ob)
                    chk.functions.add(fn)
                    chk.classify(ob)
    chk.extra_cov['skipped_for_path_bound'] = skipped
    chk.solve_all()


def path_dependence(chk, good, dirty, m, defaults, argset):
    """(parameters, arguments) under the path condition of a path whose result depends on a stale member, with two values of that member
    giving different results; None if no such point is found"""
    import replay as rp
    mp = rp.mp
    dset = set(dirty)
    for p in good:
        ret = p['ret']
        if not isinstance(ret, T) or not any(t in dset for t in tm.topo([ret])):
            continue
        conds = [(c if b else tm.lnot(c)) for c, b in p['pc']]
        syms = [t for t in tm.topo(conds + [ret]) if t.op == 'sym' and t.p != 'PI']
        import time as _time
        t_end = _time.time() + 150
        pars = [t for t in syms if t not in argset and t.p in defaults and defaults[t.p] > 0]
        near = lambda t: (Fraction(defaults[t.p]) / 2, Fraction(defaults[t.p]) * 3 / 2)
        wide = lambda t: (Fraction(defaults[t.p]) / 4096, Fraction(defaults[t.p]) * 2)
        # parameters stay near their (physically sensible) defaults; one at a time is allowed to range over three and a half decades below
        # its default (thin layers appear at small viscosities); finally all of them
        plans = [set()] + [set([t]) for t in pars] + [set(pars)]
        env = None
        for k_, widened in enumerate(plans):
            if _time.time() > t_end:
                break
            ranges = {t.p: (Fraction(1, 256), Fraction(255, 256)) for t in syms if t in argset}
            for t in pars:
                ranges[t.p] = wide(t) if t in widened else near(t)
            chk.seed += k_
            try:
                env = chk.find_point(dict(conds=conds, names=[t.p for t in syms], ranges=ranges), tries=150, steps=600)
            finally:
                chk.seed -= k_
            if not env:
                continue
            e1 = {n: mp.mpf(v.numerator) / v.denominator for n, v in env.items()}
            e2 = dict(e1)
            ret2 = tm.subst([ret], m)[0]
            for t in dirty:
                e1.setdefault(t.p, mp.mpf('0.4375'))
                e2[m[t].p] = e1[t.p] * mp.mpf('1.5') + mp.mpf('0.125')
            try:
                a = tm.evalf([ret], e1, mp, None)[0]
                b = tm.evalf([ret2], e2, mp, None)[0]
            except Exception:
                env = None
                continue
            # the dependence must be visible in working precision, not only at 50 digits
            # (and the value must be of moderate size: next to a pole every history gives the same rounded result)
            if mp.isfinite(a) and mp.isfinite(b) and abs(a - b) > mp.mpf('1e-6') * (abs(a) + abs(b) + 1) and abs(a) < mp.mpf('1e6'):
                return env
            env = None
    return None


def numeric_dependence(res, res2, syms, seed, defaults=None):
    """two assignments that agree on every symbol except the copy-1/copy-2 stale members and give different values"""
    import random
    import replay as rp
    rng = random.Random(seed + 99)
    for _ in range(24):
        env = {}
        for t in syms:
            if defaults and t.p in defaults and _ % 2 == 0:
                q = defaults[t.p]
                env[t.p] = rp.mp.mpf(q.numerator) / rp.mp.mpf(q.denominator)      # registered parameters at their (physically sensible) defaults
            else:
                env[t.p] = rp.mp.mpf(rng.randint(100, 900)) / 1000
        try:
            a, b = tm.evalf([res, res2], env, rp.mp, None)
        except Exception:
            continue
        if rp.mp.isfinite(a) and rp.mp.isfinite(b) and abs(a - b) > rp.mp.mpf('1e-12') * (abs(a) + abs(b) + 1):
            return env
    return None


def purity_replay(chk, scalar, name, meth, sig, why):
    """history-dependence replay on the real library: evaluate, perturb the object through OTHER calls
    (other evaluators at other points, a second handle), evaluate again; parameters read back before/after"""
    def replay(ob, model):
        import replay as rp
        cxx = rp.SCALAR_CXX[scalar]
        try:
            api = pde.api_name(meth)
        except KeyError:
            return dict(reproduced=True, path=chk.save_replay(ob, dict(obligation=ob.name, why=why)), detail=why)
        if 'F' in sig:
            return dict(reproduced=True, path=chk.save_replay(ob, dict(obligation=ob.name, why=why)), detail=why)
        a1 = ','.join('(Scalar)0.37' if q == 'S' else '2' for q in sig.split(',')) if sig else ''
        a2 = ','.join('(Scalar)0.81' if q == 'S' else '4' for q in sig.split(',')) if sig else ''
        st0, sol = chk.world().find(scalar, name)
        pnames = sorted(sol['params'])
        vnames = sorted(sol['vecs'])
        wit = getattr(ob, 'witness', None)
        lit = lambda q: '(Scalar)%s/(Scalar)%s' % (('%dL' % q.numerator) if abs(q.numerator) > 2 ** 31 else q.numerator, ('%dL' % q.denominator) if q.denominator > 2 ** 31 else q.denominator)
        witp = ''
        if wit:
            # the point and parameter values found under the path condition of the stale path
            a1 = ','.join(lit(wit.get('arg%d' % k, Fraction(37, 100))) if q == 'S' else '2' for k, q in enumerate(sig.split(','))) if sig else ''
            witp = ''.join('masa_set_param<Scalar>("%s", %s);' % (pn, lit(wit[pn])) for pn in pnames if pn in wit)
        for perturb in ((False, True, 'nondyadic') if not wit else (True,)):
            # second round: every registered parameter moved off its default first (defaults hide writes of a value that happens to be the default,
            # e.g. a derived parameter recomputed from another one)
            setp = ''.join('masa_set_param<Scalar>("%s", masa_get_param<Scalar>("%s")*(Scalar)1.0625+(Scalar)0.03125);' % (pn, pn) for pn in pnames) if perturb else ''
            if perturb == 'nondyadic':
                # third round: values that are not exactly representable (a parameter written back as (p - a) + a is only then visibly changed)
                setp = ''.join('masa_set_param<Scalar>("%s", (Scalar)1/(Scalar)%d + (Scalar)0.1L);' % (pn, 3 + 2 * k_) for k_, pn in enumerate(pnames))
            if wit:
                setp = witp
            lines = ['masa_init<Scalar>("a","%s"); %s' % (name, setp)]
            for vn in vnames:
                if perturb == 'nondyadic':
                    lines.append('{ std::vector<Scalar> d(3); d[0]=(Scalar)0.1L; d[1]=(Scalar)1.3L; d[2]=(Scalar)2.9L; masa_set_vec<Scalar>("%s",d); }' % vn)
                    continue
                lines.append('{ std::vector<Scalar> d(3); d[0]=(Scalar)0.25; d[1]=(Scalar)1.5; d[2]=(Scalar)2.75; masa_set_vec<Scalar>("%s",d); }' % vn)
            lines.append('std::vector<Scalar> before, after;')
            for pn in pnames:
                lines.append('before.push_back(masa_get_param<Scalar>("%s"));' % pn)
            lines.append('Scalar r1 = %s<Scalar>(%s);' % (api, a1))
            for pn in pnames:
                lines.append('after.push_back(masa_get_param<Scalar>("%s"));' % pn)
            lines.append('bool same=true; for(size_t i=0;i<before.size();i++) same = same && (before[i]==after[i]); printf("\\nR params_unchanged %d\\n",(int)same);')
            # ... every OTHER documented evaluator of the solution at another point (one evaluator may leave something another one reads)
            others = []
            valid = dict(((A.virtual_of(api_), sg_), api_) for fn_, api_, sg_ in c15.api_list(chk.world(), scalar))
            for cap in OTHER_CAPS.get(name, []):
                m2, s2 = cap[:-1].split('(')
                if 'F' in s2 or (m2, s2) not in valid:
                    continue
                api2 = valid[(m2, s2)]
                others.append('{ volatile Scalar o_ = %s<Scalar>(%s); (void)o_; }' % (api2, ','.join('(Scalar)0.81' if q == 'S' else '2' for q in s2.split(',')) if s2 else ''))
            lines.append('%s<Scalar>(%s); %s masa_init<Scalar>("b","%s"); masa_select_mms<Scalar>("a");' % (api, a2, ' '.join(others[:40]), name))
            lines.append('Scalar r2 = %s<Scalar>(%s); printf("R same_value %%d\\n", (int)(r1==r2 || (r1!=r1 && r2!=r2)));' % (api, a1))
            # ... and after the same evaluator at further points (what a stale member holds depends on the last point evaluated)
            for k_, (c1_, c2_) in enumerate((('0.11', '0.93'), ('0.93', '0.11'), ('0.03', '0.04'), ('0.5', '0.5'))):
                ak = ','.join(('(Scalar)%s' % (c1_ if i_ % 2 == 0 else c2_)) if q == 'S' else '3' for i_, q in enumerate(sig.split(','))) if sig else ''
                lines.append('{ volatile Scalar o_ = %s<Scalar>(%s); (void)o_; Scalar rk = %s<Scalar>(%s); if(!(r1==rk || (r1!=r1 && rk!=rk))) printf("R differs_after_point_%d\\n"); }' % (api, ak, api, a1, k_))
            # fresh handle, same parameters, no history
            lines.append('masa_init<Scalar>("c","%s"); %s' % (name, setp))
            for vn in vnames:
                lines.append('{ std::vector<Scalar> d(3); d[0]=(Scalar)0.25; d[1]=(Scalar)1.5; d[2]=(Scalar)2.75; masa_set_vec<Scalar>("%s",d); }' % vn)
            lines.append('Scalar r3 = %s<Scalar>(%s); printf("R same_as_fresh %%d\\n", (int)(r1==r3 || (r1!=r1 && r3!=r3)));' % (api, a1))
            src = '#include <masa.h>\n#include <cstdio>\n#include <vector>\n#include <string>\nusing namespace MASA;\ntypedef %s Scalar;\nint main(){\n%s\n return 0;}\n' % (cxx, '\n'.join(lines))
            rc, out, err = chk.lib().run(src)
            if os.environ.get('VERIF_DEBUG_C10'):
                open('/tmp/c10_wit.cpp', 'w').write(src + '\n/*\n' + out[-3000:] + '\n*/\n')
            expect = ['R params_unchanged 1', 'R same_value 1', 'R same_as_fresh 1']
            missing = [e for e in expect if e not in out] + [l for l in out.split('\n') if l.startswith('R differs_after_point')][:1]
            if missing:
                break
        if not missing and pnames:
            # parameter-change variant: a handle that has ALREADY evaluated, then gets one parameter changed, must agree bit for bit
            # with a fresh handle on which the same parameter was changed before any evaluation (stale caches keyed on a subset of the parameters)
            body3 = ['int bad=0;']
            for k, pn in enumerate(pnames[:40]):
                body3.append('{ masa_init<Scalar>("w%d","%s"); Scalar q0 = masa_get_param<Scalar>("%s"); Scalar w0 = %s<Scalar>(%s); (void)w0; masa_set_param<Scalar>("%s", q0*(Scalar)0.75+(Scalar)0.0625);'
                             % (k, name, pn, api, a1, pn))
                body3.append('  Scalar rw = %s<Scalar>(%s); masa_init<Scalar>("f%d","%s"); masa_set_param<Scalar>("%s", q0*(Scalar)0.75+(Scalar)0.0625); Scalar rf = %s<Scalar>(%s);' % (api, a1, k, name, pn, api, a1))
                body3.append('  if(!(rw==rf || (rw!=rw && rf!=rf))) { bad++; printf("\\nR stale_after_changing %s\\n"); } }' % pn)
            body3.append('printf("\\nR param_change_consistent %d\\n", bad==0);')
            src3 = '#include <masa.h>\n#include <cstdio>\n#include <vector>\n#include <string>\nusing namespace MASA;\ntypedef %s Scalar;\nint main(){\n%s\n return 0;}\n' % (cxx, '\n'.join(body3))
            rc3, out3, _ = chk.lib().run(src3)
            if 'R param_change_consistent 1' not in out3:
                missing = ['value after a parameter change equals the value on a fresh handle with the same parameters: ' + ' '.join(l for l in out3.split('\n') if l.startswith('R stale'))[:200]]
                src, out = src3, out3
        if not missing:
            # process-history variant: in a second process another handle of the same solution with different parameter values is
            # evaluated FIRST (function-local statics, global caches); the target value must be the same as when it is evaluated first
            pre = ['masa_init<Scalar>("z","%s");' % name]
            for pn in pnames:
                pre.append('masa_set_param<Scalar>("%s", masa_get_param<Scalar>("%s")*(Scalar)1.37+(Scalar)0.01);' % (pn, pn))
            pre.append('{ volatile Scalar t_ = %s<Scalar>(%s); (void)t_; }' % (api, a2))
            body2 = ['bool first = (getenv("VERIF_ORDER")==0);', 'if(!first){ %s }' % ' '.join(pre), 'masa_init<Scalar>("a","%s");' % name]
            for vn in vnames:
                body2.append('{ std::vector<Scalar> d(3); d[0]=(Scalar)0.25; d[1]=(Scalar)1.5; d[2]=(Scalar)2.75; masa_set_vec<Scalar>("%s",d); }' % vn)
            body2.append('printf("\\nR value %%.21Lg\\n",(long double)%s<Scalar>(%s));' % (api, a1))
            src2 = '#include <masa.h>\n#include <cstdio>\n#include <cstdlib>\n#include <vector>\n#include <string>\nusing namespace MASA;\ntypedef %s Scalar;\nint main(){\n%s\n return 0;}\n' % (cxx, '\n'.join(body2))
            rcA, outA, _ = chk.lib().run(src2)
            rcB, outB, _ = chk.lib().run(src2, env={'VERIF_ORDER': 'B'})
            va = [l for l in outA.split('\n') if l.startswith('R value')]
            vb = [l for l in outB.split('\n') if l.startswith('R value')]
            if va and vb and va[-1] != vb[-1]:
                missing = ['value independent of what the process evaluated before: %s vs %s' % (va[-1], vb[-1])]
                src, out = src2, outA + outB
        if missing:
            path = chk.save_replay(ob, dict(obligation=ob.name, expected=expect, stdout=out[-1500:], why=why), src)
            return dict(reproduced=True, path=path, detail='%s<%s> %s: %s; real library: %r fails' % (name, scalar, api, why, missing))
        return dict(reproduced=False, path=None, detail='real library is history-independent on the replay script (%s)' % why)
    return replay


if __name__ == '__main__':
    framework.main('C10', body)
