"""C16 Fatal-error discipline: misuse aborts with status 1 (or throws int 1) and leaves state intact."""
import sys, os, re
sys.path.insert(0, os.path.join(os.path.dirname(os.path.abspath(__file__)), '..', 'mv'))
sys.path.insert(0, os.path.join(os.path.dirname(os.path.abspath(__file__)), '..'))
import terms as tm
from terms import T
import framework
import pde
import sol as S
import registry as R
import models
from exec import Ptr, NULL, ExecError, pc_term
import c15
from c12 import H, ext_writes, matched, replay_script

NOT_SOLUTION_DEPENDENT = ('masa_init', 'masa_select_mms', 'masa_list_mms', 'masa_printid', 'masa_test_default', 'masa_version_stdout', 'masa_exit', 'masa_map')


def api_all(w, scalar):
    """every public template MASA::masa_*<Scalar>(...) / MASA::pass_func<Scalar> of masa_core"""
    out = []
    for n in sorted(w.prog.functions):
        d = w.models.demangled(n)
        m = re.match(r'^(?:.* )?MASA::(masa_\w+|pass_func)<%s>\((.*)\)$' % re.escape(scalar), d)
        if m and w.prog.functions[n]['module'].startswith('masa_core'):
            out.append((n, m.group(1), m.group(2)))
    return out


def harness_args(w, ex, sig, scalar):
    """arbitrary arguments for an API signature"""
    args = []
    parts = split_sig(sig)
    for k, p in enumerate(parts):
        p = p.strip()
        if p == scalar:
            args.append(tm.sym('arg%d' % k))
        elif p == 'int':
            args.append(tm.sym('iarg%d' % k, 'I'))
        elif p == 'std::string':
            args.append(S.new_string(ex, tm.sym('sarg%d' % k, 'S')))
        elif p == 'std::string*':
            args.append(S.new_string(ex, ''))
        elif p == 'int*':
            r = ex.st.new_region('alloca', 4, 'harness:int')
            args.append(Ptr(r.rid, 0))
        elif p.startswith('std::vector<'):
            import models
            r = ex.st.new_region('alloca', 8, 'harness:vec')
            models.new_vec(ex, Ptr(r.rid, 0), 8 if scalar == 'double' else 16)
            args.append(Ptr(r.rid, 0))
        elif '(*)' in p:
            args.append(tm.sym('callback%d' % k, 'P'))
        elif p == 'void**':
            r = ex.st.new_region('alloca', 8, 'harness:voidpp')
            args.append(Ptr(r.rid, 0))
        else:
            raise ExecError('harness: unknown parameter type %r' % p)
    return args


def split_sig(sig):
    out, depth, cur = [], 0, ''
    for ch in sig:
        if ch in '(<':
            depth += 1
        if ch in ')>':
            depth -= 1
        if ch == ',' and depth == 0:
            out.append(cur)
            cur = ''
        else:
            cur += ch
    if cur.strip():
        out.append(cur)
    return out


def fatal_ok(p, st0, exceptions, state_matters=True):
    """path ends in FATAL line then exit(1) / throw int 1, no store into pre-existing memory before it"""
    ev = p['st'].events
    couts = [e[1] for e in ev if e[0] == 'cout' and isinstance(e[1], str)]
    if not any('MASA FATAL ERROR' in c for c in couts):
        return False, 'no MASA FATAL ERROR line'
    t = p['terminal']
    if t is None:
        return False, 'call returned instead of terminating'
    if exceptions:
        if t[0] != 'throw' or t[1][1] != 1 or 'i' not in str(t[1][0]):
            return False, 'terminal %r (expected throw of int 1)' % (t,)
    else:
        if t != ('exit', 1):
            return False, 'terminal %r (expected exit(1))' % (t,)
    # FATAL line precedes the terminal event
    names = [e[0] for e in ev]
    term_idx = max(i for i, e in enumerate(ev) if e[0] in ('exit', 'throw'))
    fatal_idx = min(i for i, e in enumerate(ev) if e[0] == 'cout' and isinstance(e[1], str) and 'MASA FATAL ERROR' in e[1])
    if fatal_idx > term_idx:
        return False, 'FATAL line after termination'
    wr = ext_writes(p, st0)
    if wr and state_matters:
        # (in the exit build the process is gone after the failure: only the exception build can observe the state)
        return False, 'stores into pre-existing memory before the failure: %r' % (wr[:3],)
    if any(e[0] == 'null-deref' for e in ev):
        return False, 'null pointer dereferenced'
    return True, ''


def body(chk):
    chk.assumptions += ['cleanup code on unwind edges (destructors of temporaries) is assumed not to touch the registry', 'std containers per contract models; masa_map summarised by its C13 contract',
                        'registry state with K symbolic handles as in C12']
    K = 2
    chk.bounds = dict(registry_entries=K, builds=['default (exit)', '-DMASA_EXCEPTIONS -fexceptions (throw)'], arguments='symbolic')
    for exceptions in (False, True):
        w = chk.world(exceptions=exceptions, extra=(['-DMASA_EXCEPTIONS'] if exceptions else []))
        w.models.callback_hook = c15.callback_hook
        bname = 'throw' if exceptions else 'exit'
        for scalar in ('double', 'long double'):
            ex = w.ex
            # (a) every solution-dependent API function before any masa_init of THIS scalar type: with both registries empty, and with a
            #     solution initialised in the other scalar type's registry (which may not count as initialisation)
            other = 'long double' if scalar == 'double' else 'double'
            st_other = w.base.clone()
            S.api_init(w, st_other, other, 'other_handle', 'euler_3d')
            st_other.events, st_other.writes = [], []
            for fn, api, sig, st, where in [(f_, a_, s_, w.base, '') for f_, a_, s_ in api_all(w, scalar)] + [(f_, a_, s_, st_other, ':other-registry-initialised') for f_, a_, s_ in api_all(w, scalar)]:
                if api in NOT_SOLUTION_DEPENDENT:
                    continue

                def thunk(ex, fn=fn, sig=sig):
                    return ex.call(fn, harness_args(w, ex, sig, scalar))
                try:
                    paths = ex.explore(st, thunk, 16)
                except ExecError as e:
                    chk.infra.append('%s: %s' % (api, e))
                    continue
                chk.functions.add(fn)
                bad, why = [], ''
                for p in paths:
                    ok, why_ = fatal_ok(p, st, exceptions)
                    if not ok:
                        bad.append(pc_term(p['pc']))
                        why = why_
                if 'std::vector' in sig or '(*)' in sig or 'void**' in sig or 'std::string*' in sig:
                    call = None
                else:
                    a = ','.join('"x"' if q.strip() == 'std::string' else ('1' if q.strip() == 'int' else ('&iv' if q.strip() == 'int*' else '(Scalar)0.5')) for q in split_sig(sig))
                    call = '%s<Scalar>(%s);' % (api, a)
                if where and call is None and sig.strip() == 'int*':
                    call = 'masa_get_dimension<Scalar>(&iv);' if api == 'masa_get_dimension' else None
                pre = ['int iv=0;'] + (['masa_init<%s>("other_handle","euler_3d");' % rp_cxx(other)] if where else [])
                chk.paths_clean('uninitialised[%s]<%s>:%s(%s)%s' % (bname, scalar, api, sig, where), bad, key='uninitialised:%s(%s)' % (api, sig), family='before-init',
                                sample=dict(obligation='%s before masa_init%s' % (api, where), paths=len(paths), why=why),
                                replay=fatal_replay(chk, scalar, exceptions, pre + [call] if call else None, 'calling %s before masa_init%s: %s' % (api, where, why)))
            # (b) selecting an unknown handle / (c) initialising an unknown solution name, from a K-entry registry
            st, handles, objs = R.build(w, scalar, ['euler_2d', 'heateq_1d_unsteady_var'][:K], symbolic=True, select=0)
            p0, e0 = R.snapshot(w, st, scalar)
            fsel = S.api_fn(w, 'masa_select_mms', scalar, 'std::string')
            paths = ex.explore(st, lambda ex: ex.call(fsel, [S.new_string(ex, H)]), 16)
            bad, why, n_unknown = [], '', 0
            for p in paths:
                if matched(p, handles) is not None:
                    continue
                n_unknown += 1
                ok, why_ = fatal_ok(p, st, exceptions)
                p1, e1 = R.snapshot(w, p['st'], scalar)
                if not ok or p1 != p0 or e1 != e0:
                    bad.append(pc_term(p['pc']))
                    why = why_ or 'registry changed'
                elif exceptions:
                    # the library remains usable and behaves as before the caught failure: the same call fails the same way again,
                    # and a registered handle can still be selected (state the registry snapshot does not show would surface here)
                    why2 = after_failure_probes(w, ex, p, scalar, exceptions, fsel, handles, objs, lambda ex: [S.new_string(ex, H)])
                    if why2:
                        bad.append(pc_term(p['pc']))
                        why = why2
            if n_unknown == 0:
                bad.append(tm.TRUE)
            chk.paths_clean('select-unknown[%s]<%s>' % (bname, scalar), bad, key='select-unknown', family='unknown-handle',
                            replay=fatal_replay(chk, scalar, exceptions, ['masa_init<Scalar>("a","euler_2d");', 'masa_select_mms<Scalar>("nope");'], 'select of unknown handle: ' + why,
                                                after=['std::string s; masa_get_name<Scalar>(&s); printf("\\nR after %s\\n", s.c_str());',
                                                       'int again=0; for(int k=0;k<3;k++){ try { masa_select_mms<Scalar>("nope"); } catch(int e) { again += (e==1); } } printf("R fails_again %d\\n", again);',
                                                       'masa_get_name<Scalar>(&s); printf("R still %s\\n", s.c_str());'], expect_after=['R after euler_2d', 'R fails_again 3', 'R still euler_2d']))
            # (b') the same from the EMPTY registry, after a call that leaves state behind without changing the registry: listing the (empty)
            #      registry first, or (exception build) a caught failed select -- the fatal error must still be REPORTED afterwards
            flist = S.api_fn(w, 'masa_list_mms', scalar, '')
            firsts = [('masa_list_mms()', lambda ex: ex.call(flist, []), 'masa_list_mms<Scalar>();')]
            if exceptions:
                firsts.append(('a caught failed masa_select_mms', lambda ex: ex.call(fsel, [S.new_string(ex, H)]), 'try { masa_select_mms<Scalar>("nope0"); } catch(int e) {} std::cout.flush(); printf("\\nR marker\\n"); fflush(stdout);'))
            for fname_, first_, line_ in firsts:
                bad, why = [], ''
                for p in ex.explore(w.base, first_, 16):
                    if p['error'] is not None:
                        bad.append(pc_term(p['pc']))
                        why = str(p['error'])
                        continue
                    if p['terminal'] is not None and not (exceptions and p['terminal'][0] == 'throw'):
                        if fname_.startswith('masa_list'):
                            bad.append(pc_term(p['pc']))
                            why = 'listing the empty registry terminates: %r' % (p['terminal'],)
                        continue
                    st1 = p['st'].clone()
                    st1.events = [('cout-fail', 'carried over from the first step')] if models.cout_failed(None, st1.events) else []
                    for q in ex.explore(st1, lambda ex: ex.call(fsel, [S.new_string(ex, H)]), 16):
                        ok, why_ = fatal_ok(q, st1, exceptions, state_matters=False)
                        if not ok:
                            bad.append(pc_term(p['pc']))
                            why = 'after %s on the empty registry: %s' % (fname_, why_)
                chk.paths_clean('select-unknown-on-empty-registry-after-%s[%s]<%s>' % (fname_.split('(')[0].replace(' ', '-'), bname, scalar), bad, key='select-unknown:empty:%s' % fname_, family='unknown-handle',
                                sample=dict(obligation='fatal error still reported after %s' % fname_, why=why),
                                replay=fatal_replay(chk, scalar, exceptions, [line_, 'masa_select_mms<Scalar>("nope");'], 'select of an unknown handle on the empty registry after %s: %s' % (fname_, why)))
            finit = S.api_fn(w, 'masa_init', scalar, 'std::string, std::string')
            S.install_api_models(w)
            BADNAME = tm.sym('BADNAME', 'S')
            # only the path on which the (symbolic) normalised name matches no catalogue entry is the subject here:
            # directed exploration takes the 'no match' branch of every comparison first and stops after that path
            def directed(cond):
                # every comparison of the (symbolic) normalised name with a catalogue name fails; comparisons of the handle fork normally,
                # so both 'H is a new handle' and 'H is an existing handle' are covered
                if any(t.op == 'uf' and t.p == 'masa_map' for t in tm.topo([cond])):
                    return False
                return None
            paths = ex.explore(st, lambda ex: ex.call(finit, [S.new_string(ex, H), S.new_string(ex, BADNAME)]), 128, default=directed)
            bad, why, n_unknown = [], '', 0
            for p in paths:
                if p['terminal'] is None and p['error'] is None:
                    continue            # the symbolic name matched a catalogue name: C12/C13
                n_unknown += 1
                ok, why_ = fatal_ok(p, st, exceptions, state_matters=exceptions)
                p1, e1 = R.snapshot(w, p['st'], scalar)
                if not ok or (exceptions and (p1 != p0 or e1 != e0)):
                    bad.append(pc_term(p['pc']))
                    why = why_ or 'registry changed'
                elif exceptions:
                    why2 = after_failure_probes(w, ex, p, scalar, exceptions, finit, handles, objs, lambda ex: [S.new_string(ex, H), S.new_string(ex, BADNAME)], fsel=fsel, directed=directed)
                    if why2:
                        bad.append(pc_term(p['pc']))
                        why = why2
            if n_unknown == 0:
                bad.append(tm.TRUE)
            chk.paths_clean('init-unknown-name[%s]<%s>' % (bname, scalar), bad, key='init-unknown-name', family='unknown-name',
                            sample=dict(obligation='masa_init(H, BADNAME)', paths=len(paths), why=why),
                            replay=fatal_replay(chk, scalar, exceptions,
                                                ['masa_init<Scalar>("a","euler_2d"); masa_set_param<Scalar>("L",(Scalar)3.5); masa_init<Scalar>("b","euler_1d");',
                                                 'masa_init<Scalar>("a","no such solution");'], 'init of unknown solution on an existing handle: ' + why,
                                                after=['std::string s; masa_get_name<Scalar>(&s); printf("\\nR after %s\\n", s.c_str());',
                                                       'int ok2=0; try { masa_select_mms<Scalar>("a"); masa_get_name<Scalar>(&s); ok2 = (s=="euler_2d") && masa_get_param<Scalar>("L")==(Scalar)3.5; } catch(int e) { ok2=0; }',
                                                       'printf("R a_intact %d\\n", ok2);',
                                                       'int g_=0; try { masa_init<Scalar>("ghost","no such solution"); } catch(int e) {} try { masa_select_mms<Scalar>("ghost"); g_=1; } catch(int e) { g_=0; }',
                                                       'printf("R ghost_not_registered %d\\n", g_==0);'], expect_after=['R after euler_1d', 'R a_intact 1', 'R ghost_not_registered 1']))
    chk.solve_all()


def after_failure_probes(w, ex, p, scalar, exceptions, fn, handles, objs, mkargs, fsel=None, directed=None):
    """second step from the state a caught failure leaves: (1) the same failing call again must fail in the same way,
    (2) selecting a registered handle must succeed and select its instance.  Returns '' or what went wrong."""
    st1 = p['st'].clone()
    n0 = len(st1.events)
    st1.events = [('cout-fail', 'carried over from the first step')] if models.cout_failed(None, st1.events) else []      # (stream state survives the caught failure)
    sel = fsel or fn
    kw = dict(default=directed) if directed is not None else {}
    first = set((c.id, b) for c, b in p['pc'])
    seen = 0
    for q in ex.explore(st1, lambda ex: ex.call(fn, mkargs(ex)), 128, **kw):
        if any((c.id, not b) in first for c, b in q['pc']):
            continue        # contradicts what the first call already established about the same arguments
        if matched(q, handles) is not None and fsel is None:
            continue
        seen += 1
        ok, why_ = fatal_ok(q, st1, exceptions, state_matters=False)
        if not ok:
            return 'the same failing call repeated after the caught failure: %s' % why_
    if seen == 0:
        return 'the repeated failing call has no feasible path'
    for i, h in enumerate(handles):
        for q in ex.explore(st1, lambda ex: ex.call(sel, [S.new_string(ex, h)]), 16):
            if any(b and c.op == 'eq' and all(any(x is g for g in handles) for x in c.a) and c.a[0] is not c.a[1] for c, b in q['pc']):
                continue    # two registered handles compared equal: excluded by the pairwise-distinctness assumption of the state
            if q['terminal'] is not None or q['error'] is not None:
                return 'select of the registered handle %s after the caught failure: %r' % (h.p, q['terminal'] or q['error'])
            p1, e1 = R.snapshot(w, q['st'], scalar)
            if p1 != objs[i]:
                return 'select of the registered handle %s after the caught failure selects another instance' % h.p
    return ''


def rp_cxx(scalar):
    import replay as rp
    return rp.SCALAR_CXX[scalar]


def fatal_replay(chk, scalar, exceptions, lines, why, after=None, expect_after=None):
    def replay(ob, model):
        if lines is None:
            return dict(reproduced=True, path=chk.save_replay(ob, dict(obligation=ob.name, why=why)), detail=why)
        import replay as rp
        from replay import Lib
        cxx = rp.SCALAR_CXX[scalar]
        pre, bad = lines[:-1], lines[-1]
        if exceptions:
            lb = Lib(chk.scratch, extra=('-DMASA_EXCEPTIONS',))
            body = '%s\n int caught=0; try { %s } catch(int e) { caught = (e==1); }\n printf("\\nR caught %%d\\n", caught);\n%s' % ('\n'.join(pre), bad, '\n'.join(after or []))
            expect = ['MASA FATAL ERROR', 'R caught 1'] + (list(expect_after) if isinstance(expect_after, (list, tuple)) else ([expect_after] if expect_after else []))
            want_rc = 0
        else:
            lb = chk.lib()
            body = '%s\n %s\n printf("\\nR survived\\n");' % ('\n'.join(pre), bad)
            expect = ['MASA FATAL ERROR']
            want_rc = 1
        src = '#include <masa.h>\n#include <cstdio>\n#include <iostream>\n#include <string>\nusing namespace MASA;\ntypedef %s Scalar;\nint main(){\n%s\n return 0;}\n' % (cxx, body)
        rc, out, err = lb.run(src)
        if 'R marker' in out:
            out = out.split('R marker')[-1]          # only what is printed after the preparatory (caught) failure counts
        missing = [e for e in expect if e not in out]
        if missing or rc != want_rc or 'R survived' in out:
            path = chk.save_replay(ob, dict(obligation=ob.name, expected=expect, stdout=out[-2000:], rc=rc, why=why), src)
            return dict(reproduced=True, path=path, detail='%s; rc=%d missing=%r' % (why, rc, missing))
        return dict(reproduced=False, path=None, detail='real library aborts as specified on the replay script')
    return replay


if __name__ == '__main__':
    framework.main('C16', body)
