"""navierstokes_4d_compressible_powerlaw (nsctpl): modular check mirroring the code (DESIGN.md §4 C03).
 (a) every derivative member of nsctpl::primitive == symbolic derivative of its operator() term (39 symbolic parameters);
 (b) Q_rho..Q_rhoe with the primitive calls replaced by jet variables == Navier-Stokes operator with the power-law
     viscosity applied to abstract fields whose derivatives are the same jet variables;
 (a)+(b) compose to the property by substitution.  Also used by C07 for the gradient members."""
import re
import terms as tm
from terms import T
import pde
import smt
import framework
from exec import Ptr, ExecError, merge_paths
from pde import X, Y, Z, TT

FIELDS = ('rho', 'u', 'v', 'w', 'T')
DERIVS = ('_t', '_x', '_xx', '_xy', '_xz', '_y', '_yy', '_yz', '_z', '_zz')
VAR = {'x': X, 'y': Y, 'z': Z, 't': TT}


def prim_functions(w, scalar):
    """{member name: linked function name} of nsctpl::primitive<scalar>"""
    out = {}
    for n in w.prog.functions:
        d = w.models.demangled(n)
        m = re.match(r'^(?:.* )?MASA::nsctpl::primitive<%s>::(operator\(\)|_\w+)<.*>\(.*\) const$' % re.escape(scalar), d)
        if m:
            out[m.group(1)] = n
    return out


def field_pointers(w, view, prims):
    """sub-object addresses of rho,u,v,w,T: captured from the this-pointer of primitive::operator() under eval_exact_*"""
    ptrs = {}
    ex = w.ex
    seen = []
    ex.hooks[prims['operator()']] = lambda e, f, args: seen.append(args[0])
    try:
        for fld, meth in (('rho', 'eval_exact_rho'), ('u', 'eval_exact_u'), ('v', 'eval_exact_v'), ('w', 'eval_exact_w'), ('T', 'eval_exact_t')):
            del seen[:]
            fn = w.method(view.sol, meth, 4)
            ex.explore(view.st, lambda e: e.call(fn, [view.sol['ptr'], X, Y, Z, TT]), 4)
            ptrs[fld] = seen[0]
    finally:
        ex.hooks.pop(prims['operator()'], None)
    return ptrs


def jet_sym(fld, suffix=''):
    return tm.sym('J:%s%s' % (fld, suffix))


def jet_rule(t, diff):
    """formal derivative of a jet variable: d/dx J:phi = J:phi_x, d/dy J:phi_x = J:phi_xy, ... (second order at most)"""
    if t.op != 'sym' or not t.p.startswith('J:'):
        return None
    name = t.p[2:]
    v = [k for k, s in VAR.items() if s is diff.var][0]
    if '_' in name and name.split('_')[-1].isalpha() and name.split('_')[0] in FIELDS or name in FIELDS:
        if name in FIELDS:
            return jet_sym(name, '_' + v)
        fld, suf = name.rsplit('_', 1)
        if len(suf) >= 2 or 't' in suf or v == 't':
            raise ValueError('third-order or mixed time derivative of a jet requested: %s d%s' % (name, v))
        return jet_sym(fld, '_' + ''.join(sorted(suf + v)))
    return None


def Dj(t, v):
    return tm.Diff(v, jet_rule)(t)


def reference(P):
    """compressible Navier-Stokes, ideal gas p = rho R T, e = R T/(gamma-1) + |u|^2/2, mu = mu_r (T/T_r)^beta,
    lambda = lambda_r mu/mu_r, kappa = k_r mu/mu_r; tau = mu (grad u + grad u^T) + lambda div u I; q = -kappa grad T"""
    rho, u, v, w_, Tt = [jet_sym(f) for f in FIELDS]
    R, g = P['R'], P['gamma']
    mu = P['mu_r'] * tm.fn('pow', Tt / P['T_r'], P['beta'])
    lam = P['lambda_r'] / P['mu_r'] * mu
    kap = P['kappa_r'] / P['mu_r'] * mu
    p = rho * R * Tt
    e = R * Tt / (g - 1) + (u * u + v * v + w_ * w_) / 2
    vel = [u, v, w_]
    xs = [X, Y, Z]
    dv = sum((Dj(vel[i], xs[i]) for i in range(3)), tm.ZERO)
    tau = [[mu * (Dj(vel[j], xs[i]) + Dj(vel[i], xs[j])) + (lam * dv if i == j else tm.ZERO) for j in range(3)] for i in range(3)]
    res = {}
    res['rho'] = Dj(rho, TT) + sum((Dj(rho * vel[j], xs[j]) for j in range(3)), tm.ZERO)
    for i, nm in enumerate(('rho_u', 'rho_v', 'rho_w')):
        res[nm] = Dj(rho * vel[i], TT) + sum((Dj(rho * vel[i] * vel[j], xs[j]) for j in range(3)), tm.ZERO) + Dj(p, xs[i]) - sum((Dj(tau[i][j], xs[j]) for j in range(3)), tm.ZERO)
    res['rho_e'] = Dj(rho * e, TT) + sum((Dj(rho * e * vel[j] + p * vel[j], xs[j]) for j in range(3)), tm.ZERO) \
        - sum((Dj(sum((vel[i] * tau[i][j] for i in range(3)), tm.ZERO), xs[j]) for j in range(3)), tm.ZERO) \
        - sum((Dj(kap * Dj(Tt, xs[j]), xs[j]) for j in range(3)), tm.ZERO)
    grads = dict(p=p, rho=rho, u=u, v=v, w=w_, t=Tt)
    return res, grads


def build(chk, w, scalars=('double', 'long double'), gradients=False):
    val = []
    name = 'navierstokes_4d_compressible_powerlaw'
    for scalar in scalars:
        v = pde.SolView(chk, w, name, scalar)
        P = v.P
        prims = prim_functions(w, scalar)
        if 'operator()' not in prims or any(d not in prims for d in DERIVS):
            chk.infra.append('power law: primitive members not found: %r' % sorted(prims))
            return val
        ptrs = field_pointers(w, v, prims)
        ex = w.ex
        tag = '%s<%s>' % (name, scalar)
        Lnz = [tm.cmp('ne', P[k], tm.ZERO) for k in ('Lx', 'Ly', 'Lz')]
        if not gradients:
            # ---- (a) jets of every primitive field
            for fld in FIELDS:
                base = ex.explore(v.st, lambda e: e.call(prims['operator()'], [ptrs[fld], X, Y, Z, TT]), 4)[0]['ret']
                for d in DERIVS:
                    lib = ex.explore(v.st, lambda e: e.call(prims[d], [ptrs[fld], X, Y, Z, TT]), 4)[0]['ret']
                    ref = base
                    for ch in d[1:]:
                        ref = tm.D(ref, VAR[ch])
                    chk.identity('%s:primitive %s%s = d%s %s' % (tag, fld, d, d[1:], fld), lib, ref, Lnz, key='powerlaw:jet:%s%s' % (fld, d), family='powerlaw-jets', witnesses=(d in ('_x', '_yz')))
                    chk.functions.add(prims[d])
        # ---- (b) sources / gradients with the primitive calls opaque
        byptr = dict(((p.rid, p.off), f) for f, p in ptrs.items())
        for member, fn in prims.items():
            suf = '' if member == 'operator()' else member
            ex.opaque[fn] = (lambda e, args, inst, suf=suf: jet_sym(byptr[(args[0].rid, args[0].off)], suf))
        try:
            ref, gfields = reference(P)
            A = [tm.cmp('gt', jet_sym('rho'), tm.ZERO), tm.cmp('gt', jet_sym('T'), tm.ZERO), tm.cmp('gt', P['T_r'], tm.ZERO), tm.cmp('ne', P['mu_r'], tm.ZERO),
                 tm.cmp('ne', P['gamma'], tm.ONE), tm.cmp('ne', P['R'], tm.ZERO)]
            if not gradients:
                for eq in ('rho', 'rho_u', 'rho_v', 'rho_w', 'rho_e'):
                    lib = v.term('eval_q_' + eq, [X, Y, Z, TT])
                    chk.identity('%s:eval_q_%s (jets abstract)' % (tag, eq), lib, ref[eq], A, key='powerlaw:eval_q_%s' % eq, family='powerlaw-sources')
                for fld, meth in (('rho', 'eval_exact_rho'), ('u', 'eval_exact_u'), ('v', 'eval_exact_v'), ('w', 'eval_exact_w'), ('t', 'eval_exact_t'), ('p', 'eval_exact_p')):
                    lib = v.term(meth, [X, Y, Z, TT])
                    chk.identity('%s:%s (jets abstract)' % (tag, meth), lib, gfields[fld], A, key='powerlaw:%s' % meth, family='powerlaw-sources', witnesses=False)
            else:
                I = tm.sym('i', 'I')
                for fld in ('rho', 'u', 'v', 'w', 't', 'p'):
                    fn = w.method(v.sol, 'eval_g_' + fld, 4, 'i')
                    paths = ex.explore(v.st, lambda e: e.call(fn, [v.sol['ptr'], X, Y, Z, TT, I]), 16)
                    chk.functions.add(fn)
                    g = merge_paths(paths)
                    for k, c in enumerate((X, Y, Z)):
                        chk.identity('%s:eval_g_%s:i=%d (jets abstract)' % (tag, fld, k + 1), g, Dj(gfields[fld], c), A + [tm.cmp('eq', I, tm.iconst(k + 1))], key='powerlaw:eval_g_%s:i=%d' % (fld, k + 1),
                                     family='powerlaw-gradients', witnesses=(k == 0))
                    # out-of-range index: the error value is NaN, independent of the point (the path returns the signalling NaN constant)
                    bad = []
                    for p in paths:
                        inrange = any(b and c.op == 'eq' and any(tm.isc(x) and x.p in (1, 2, 3) for x in c.a) for c, b in p['pc'])
                        if not inrange and not (isinstance(p['ret'], T) and p['ret'].op == 'sym' and p['ret'].p == 'FP_nan'):
                            bad.append(pde.pc_term(p['pc']))
                    chk.paths_clean('%s:eval_g_%s:index-outside-1..3-yields-NaN' % (tag, fld), bad, key='powerlaw:eval_g_%s:range' % fld, family='powerlaw-gradients')
        finally:
            for fn in prims.values():
                ex.opaque.pop(fn, None)
    return val
