def build(chk, w):
    return []
