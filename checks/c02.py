"""C02 Euler family: sources = residual of the inviscid conservation laws on the exact fields;
exact fields = documented sine/cosine forms."""
import sys, os
sys.path.insert(0, os.path.join(os.path.dirname(os.path.abspath(__file__)), '..', 'mv'))
sys.path.insert(0, os.path.join(os.path.dirname(os.path.abspath(__file__)), '..'))
import terms as tm
import framework
import pde
from pde import X, Y, Z, TT, R_
from spec import fields, operators

# solution -> (spatial coordinate letters, transient, axisymmetric)
FAMILY = {
    'euler_1d': ('x', False, False), 'euler_2d': ('xy', False, False), 'euler_3d': ('xyz', False, False),
    'euler_transient_1d': ('x', True, False), 'euler_transient_2d': ('xy', True, False), 'euler_transient_3d': ('xyz', True, False),
    'axisymmetric_euler': ('rz', False, True), 'axi_euler_transient': ('rz', True, True),
}


def flow_family(chk, w, family, viscous_of=None, doc_fields=None, scalars=('double', 'long double'), ranges=None, asbuilt=None):
    val = []
    for scalar in scalars:
        for name, (cl, transient, axi) in family.items():
            v = pde.SolView(chk, w, name, scalar)
            coords = [pde.COORD[c] for c in cl]
            args = coords + ([TT] if transient else [])
            fnames = ['rho', 'p'] + (['u', 'w'] if axi else ['u', 'v', 'w'][:len(cl)])
            ex = {}
            for f in fnames:
                ex[f] = v.term('eval_exact_' + f, args)
                val.append((v, 'eval_exact_' + f, args, ex[f]))
            # documented forms
            doc = doc_fields(name, v.P, cl, transient, axi) if doc_fields else None
            if doc:
                for f in fnames:
                    chk.identity('%s<%s>:exact_%s=documented' % (name, scalar, f), ex[f], doc[f], [tm.cmp('ne', v.P['L'], tm.ZERO)],
                                 key='%s:eval_exact_%s' % (name, f), family='exact-form',
                                 replay=pde.make_replay(chk, v, 'eval_exact_' + f, args, ex[f], doc[f], ranges))
            visc = viscous_of(name, v.P) if viscous_of else None
            res = operators.flow(ex, coords, v.P, t=TT if transient else None, axisymmetric=axi, viscous=visc)
            assume = [tm.cmp('ne', v.P['L'], tm.ZERO), tm.cmp('ne', v.P['Gamma'], tm.ONE), tm.cmp('gt', ex['rho'], tm.ZERO)]
            if visc is not None:
                assume.append(tm.cmp('ne', v.P['R'], tm.ZERO))
            if axi:
                assume.append(tm.cmp('gt', R_, tm.ZERO))
            ab = (asbuilt or {}).get(name)
            res_ab = operators.flow(ex, coords, v.P, t=TT if transient else None, axisymmetric=axi, viscous=visc, asbuilt=ab) if ab else None
            for eq, ref in sorted(res.items()):
                meth = 'eval_q_' + eq
                if not v.has(meth, len(args)):
                    alt = {'rho_e': 'eval_q_e', 'rho_u': 'eval_q_u', 'rho_v': 'eval_q_v', 'rho_w': 'eval_q_w'}.get(eq)
                    if alt and v.has(alt, len(args)):
                        meth = alt
                    else:
                        chk.infra.append('%s: no evaluator for equation %s' % (name, eq))
                        continue
                lib = v.term(meth, args)
                val.append((v, meth, args, lib))
                if res_ab is not None and res_ab[eq] is not ref:
                    # known-deficient evaluator: (B) library == as-built operator keeps the evaluator under regression control;
                    # (A) as-built operator == true operator is the property itself given (B) and is expected to fail (known finding)
                    chk.identity('%s<%s>:%s:as-built' % (name, scalar, meth), lib, res_ab[eq], assume, key='%s:%s:as-built' % (name, meth), family='residual-as-built',
                                 replay=pde.make_replay(chk, v, meth, args, lib, res_ab[eq], ranges))
                    chk.identity('%s<%s>:%s' % (name, scalar, meth), res_ab[eq], ref, assume, key='%s:%s' % (name, meth), family='residual', witnesses=False,
                                 replay=pde.make_replay(chk, v, meth, args, lib, ref, ranges))
                    continue
                chk.identity('%s<%s>:%s' % (name, scalar, meth), lib, ref, assume, key='%s:%s' % (name, meth), family='residual',
                             replay=pde.make_replay(chk, v, meth, args, lib, ref, ranges))
    return val


def doc_fields(name, P, cl, transient, axi):
    if axi:
        return fields.axi_euler_fields(P, transient)
    fn = ['rho', 'p'] + ['u', 'v', 'w'][:len(cl)]
    return {f: fields.roy(P, f, cl + ('t' if transient else '')) for f in fn}


def body(chk):
    w = chk.world()
    chk.assumptions += ['real-arithmetic model of FP (formula layer, DESIGN.md §3.3)', 'sin/cos abstracted to points on the unit circle (sound)',
                        'admissibility: L != 0, Gamma != 1, rho > 0 (r > 0 for the axisymmetric pair); denominators of the evaluated expressions nonzero']
    chk.bounds = dict(values='unbounded (all real parameter values and points satisfying the admissibility assumptions)', loops='none')
    val = flow_family(chk, w, FAMILY, None, doc_fields)
    import c09
    c09.add_type_purity(chk, ['euler_1d', 'euler_2d', 'euler_3d', 'euler_transient_', 'axisymmetric_euler', 'axi_euler_transient'])
    chk.solve_all()
    pde.validate_terms(chk, val, npoints=1 if chk.tier == 'quick' else 4)


if __name__ == '__main__':
    framework.main('C02', body)
