"""C12 Handle registry: handles are isolated, selectable and re-initialisable."""
import sys, os, json
sys.path.insert(0, os.path.join(os.path.dirname(os.path.abspath(__file__)), '..', 'mv'))
sys.path.insert(0, os.path.join(os.path.dirname(os.path.abspath(__file__)), '..'))
import terms as tm
from terms import T
import framework
import pde
import sol as S
import registry as R
import models
from exec import Ptr, NULL, ExecError, pc_term

H = tm.sym('H', 'S')
NAME = tm.sym('NAME', 'S')
V = tm.sym('V')


def matched(p, handles):
    for c, b in p['pc']:
        if b and c.op == 'eq' and any(x is H for x in c.a):
            o = [x for x in c.a if x is not H][0]
            for i, h in enumerate(handles):
                if h is o:
                    return i
    return None


def ext_writes(p, st0):
    return [w_ for w_ in p['st'].writes[len(st0.writes):] if w_[0] < st0.next_rid and p['st'].regions[w_[0]].kind not in ('alloca',)]


def replay_script(chk, scalar, lines, expect, why):
    def replay(ob, model):
        import replay as rp
        cxx = rp.SCALAR_CXX[scalar]
        src = ('#include <masa.h>\n#include <cstdio>\n#include <string>\nusing namespace MASA;\ntypedef %s Scalar;\nint main(){\n%s\n return 0;}\n') % (cxx, '\n'.join(lines))
        rc, out, err = chk.lib().run(src)
        missing = [e for e in expect if e not in out]
        if missing or rc != 0:
            path = chk.save_replay(ob, dict(obligation=ob.name, expected=expect, stdout=out[-2500:], rc=rc, why=why), src)
            return dict(reproduced=True, path=path, detail='%s; real library output lacks %r' % (why, missing))
        return dict(reproduced=False, path=None, detail='real library follows the reference registry on the replay script')
    return replay


def api_catalogue(w, scalar):
    """every MASA::masa_*<scalar>(...) defined in the IR: (linked name, API name, demangled parameter list)"""
    import re
    out = []
    for n in sorted(w.prog.functions):
        m = re.match(r'^(?:.* )?MASA::(masa_\w+)<%s>\((.*)\)$' % re.escape(scalar), w.models.demangled(n))
        if m:
            out.append((n, m.group(1), m.group(2)))
    return out


def sig_void(w, fn):
    return w.models.demangled(fn).startswith('void ')


def rpx(scalar):
    import replay as rp
    return rp.SCALAR_CXX[scalar]


def two_process_replay(chk, scalar, lines, why):
    """runs the script twice on the real library -- without and with an argument (= other registry populated) -- and compares the 'R call' lines"""
    def replay(ob, model):
        import replay as rp
        cxx = rp.SCALAR_CXX[scalar]
        src = ('#include <masa.h>\n#include <cstdio>\n#include <string>\n#include <vector>\n#include <cstdlib>\nusing namespace MASA;\ntypedef %s Scalar;\n'
               'static Scalar cb_(Scalar t){ return (Scalar)0.5 + t*t/(Scalar)7; }\n'
               'static void pr_(Scalar v){ printf("%%.21Lg", (long double)v); }\nstatic void pr_(int v){ printf("%%d", v); }\n'
               'int main(){\n%s\n return 0;}\n') % (cxx, '\n'.join(lines))
        rc1, out1, err1 = chk.lib().run(src)
        rc2, out2, err2 = chk.lib().run(src, env={'MV_OTHER': '1'})
        l1 = [l for l in out1.splitlines() if l.startswith('R call')]
        l2 = [l for l in out2.splitlines() if l.startswith('R call')]
        bad = rc1 != rc2 or l1 != l2 or (rc2 == 0 and 'R other_untouched 1' not in out2)
        if bad:
            path = chk.save_replay(ob, dict(obligation=ob.name, alone=dict(rc=rc1, stdout=out1[-1500:]), with_other=dict(rc=rc2, stdout=out2[-1500:]), why=why), src)
            return dict(reproduced=True, path=path, detail='%s: alone rc=%s %r, with the other registry populated rc=%s %r' % (why, rc1, l1, rc2, l2))
        return dict(reproduced=False, path=None, detail='real library: same result with and without the other registry')
    return replay


def body(chk):
    w = chk.world()
    K = 2 if chk.tier == 'quick' else 3
    chk.assumptions += ['registry state: K entries with pairwise-distinct SYMBOLIC handle strings mapped to live objects built by the real masa_init on the IR (representation invariant R: selected pointer in range(map) or null, values distinct and live)',
                        'one API step from any such state; handle argument symbolic (covers every registered and every fresh handle)', 'std::map/std::string per contract models; masa_map summarised by its C13 contract']
    st_all, sols_all, _ = w.catalogue('double')
    allnames = [s['name'] for s in sols_all]
    init_names = ['euler_1d', 'heateq_2d_steady_const', 'cp_normal', 'navierstokes_4d_compressible_powerlaw', 'sod_1d', 'masa_uninit'] if chk.tier == 'quick' else allnames
    chk.bounds = dict(registry_entries=K, init_solution_names=len(init_names), handles='symbolic strings', note='nothing in the code depends on K beyond std::map operations, which are modelled for any K')
    for scalar in ('double', 'long double'):
        other = 'long double' if scalar == 'double' else 'double'
        base_names = ['euler_2d', 'euler_2d', 'heateq_1d_unsteady_var'][:K]      # two handles of the same solution type included
        for sel in range(K):
            st, handles, objs = R.build(w, scalar, base_names, symbolic=True, select=sel)
            A = list(st.distinct)
            ex = w.ex
            ptr0, ents0 = R.snapshot(w, st, scalar)
            tag = '<%s>K=%d,selected=%d' % (scalar, K, sel)
            # ---- invariant R holds in the constructed state (established by the real masa_init)
            live = all(st.regions[o.rid].alive for o in objs) and len(set(o.rid for o in objs)) == len(objs) and ptr0 in objs
            chk.paths_clean('invariant%s:established-by-masa_init' % tag, [] if live else [tm.TRUE], family='invariant')
            # ---- select_mms(H)
            fsel = S.api_fn(w, 'masa_select_mms', scalar, 'std::string')
            paths = ex.explore(st, lambda ex: ex.call(fsel, [S.new_string(ex, H)]), 16)
            chk.functions.add(fsel)
            bad, seen = [], set()
            for p in paths:
                i = matched(p, handles)
                if i is None:
                    if p['terminal'] is None and p['error'] is None:
                        # returned normally without having looked the handle up: whatever H is, it was not made the target
                        bad.append(pc_term(p['pc']))
                    continue        # unknown handle ending in the fatal error: C16
                seen.add(i)
                ptr1, ents1 = R.snapshot(w, p['st'], scalar)
                wr = ext_writes(p, st)
                rid = R.registry_global(st, scalar)
                if p['error'] is not None or p['terminal'] is not None or ptr1 != objs[i] or ents1 != ents0 or any((x[0], x[1]) != (rid, 0) for x in wr):
                    bad.append(pc_term(p['pc']))
            if seen != set(range(K)):
                bad.append(tm.TRUE)
            rs = replay_script(chk, scalar, ['masa_init<Scalar>("a","euler_2d"); masa_init<Scalar>("b","euler_2d"); masa_init<Scalar>("c","heateq_1d_unsteady_var");',
                                             'masa_select_mms<Scalar>("a"); masa_set_param<Scalar>("L",(Scalar)3.5); masa_select_mms<Scalar>("b"); masa_set_param<Scalar>("L",(Scalar)4.5);',
                                             'masa_select_mms<Scalar>("a"); printf("\\nR a %d\\n", masa_get_param<Scalar>("L")==(Scalar)3.5); std::string n; masa_select_mms<Scalar>("c"); masa_get_name<Scalar>(&n); printf("R c %s\\n", n.c_str());',
                                             'masa_select_mms<Scalar>("b"); printf("R b %d\\n", masa_get_param<Scalar>("L")==(Scalar)4.5);',
                                             # a handle that is named exactly like its solution type
                                             'masa_init<Scalar>("euler_2d","euler_2d"); masa_set_param<Scalar>("L",(Scalar)6.5); masa_select_mms<Scalar>("b"); masa_select_mms<Scalar>("euler_2d");',
                                             'printf("R named_like_its_solution %d\\n", masa_get_param<Scalar>("L")==(Scalar)6.5);'],
                               ['R a 1', 'R c heateq_1d_unsteady_var', 'R b 1', 'R named_like_its_solution 1'], 'select/set/get over handles (one named like its solution type)')
            chk.paths_clean('select%s:selects-map[H]-and-nothing-else' % tag, bad, family='select', replay=rs,
                            sample=dict(obligation='select_mms(H)', paths=len(paths), handles=[h.p for h in handles]))
            # ---- parameter operations store only inside the selected object
            fset = S.api_fn(w, 'masa_set_param', scalar, 'std::string, %s' % scalar)
            paths = ex.explore(st, lambda ex: ex.call(fset, [S.new_string(ex, NAME), V]), 64)
            bad = [pc_term(p['pc']) for p in paths if p['error'] is not None or p['terminal'] is not None or any(x[0] != objs[sel].rid for x in ext_writes(p, st))]
            chk.paths_clean('set_param%s:stores-only-inside-selected-object' % tag, bad, family='isolation', replay=rs)
            # ---- list_mms prints the count and one (handle : name) line per entry
            flist = S.api_fn(w, 'masa_list_mms', scalar, '')
            paths = ex.explore(st, lambda ex: ex.call(flist, []), 4)
            ok = len(paths) == 1 and paths[0]['error'] is None
            if ok:
                ev = [e[1] for e in paths[0]['st'].events if e[0] == 'cout']
                ok = K in ev and not ext_writes(paths[0], st)
                for h, n in zip(handles, base_names):
                    ok = ok and any(ev[j] is h and ev[j + 1] == ' : ' and ev[j + 2] == n for j in range(len(ev) - 2))
                ok = ok and sum(1 for x in ev if x == ' : ') == K
            chk.paths_clean('list_mms%s:reports-exactly-the-registered-handles' % tag, [] if ok else [tm.TRUE], family='report')
            # ---- get_name / get_dimension report the selected solution
            ex.st = st.clone()
            ex.schedule, ex.decisions, ex.pending = [], [], []
            out = S.new_string(ex, '')
            ex.call(S.api_fn(w, 'masa_get_name', scalar, 'std::string*'), [out])
            ok = ex.st.side[(out.rid, out.off)].v == base_names[sel] and not ex.pending
            chk.paths_clean('get_name%s:reports-selected' % tag, [] if ok else [tm.TRUE], family='report')
            # ---- masa_init(H, name): map' = map[H -> fresh], selected = fresh, fresh has default parameters, nothing else touched
            finit = S.api_fn(w, 'masa_init', scalar, 'std::string, std::string')
            chk.functions.add(finit)
            if sel != 0 and chk.tier == 'quick':
                continue
            for n in init_names:
                S.install_api_models(w)
                paths = ex.explore(st, lambda ex: ex.call(finit, [S.new_string(ex, H), S.new_string(ex, n)]), 16)
                bad = []
                for p in paths:
                    if p['error'] is not None or p['terminal'] is not None:
                        bad.append(pc_term(p['pc']))
                        continue
                    i = matched(p, handles)
                    ptr1, ents1 = R.snapshot(w, p['st'], scalar)
                    fresh = ptr1
                    ok = isinstance(fresh, Ptr) and fresh.rid >= st.next_rid and p['st'].regions[fresh.rid].alive
                    exp = dict(ents0)
                    exp[R.keyname(handles[i]) if i is not None else 'H'] = fresh
                    ok = ok and ents1 == exp
                    if ok:
                        d = w.describe(p['st'], fresh, scalar)
                        ok = d['name'] == n
                        # default parameters: identical to a catalogue-fresh object of that class
                        st_c, ref = w.find(scalar, n)
                        for pn, (ix, a) in ref['params'].items():
                            a2 = d['params'].get(pn, (None, None))[1]
                            if a is None or a2 is None or p['st'].mem.get((a2.rid, a2.off), (0, None))[1] is not st_c.mem.get((a.rid, a.off), (0, None))[1]:
                                ok = False
                    rid = R.registry_global(st, scalar)
                    for x in ext_writes(p, st):
                        if x[0] == rid:
                            continue                        # registry object itself (pointer + map header)
                        if p['st'].regions[x[0]].kind == 'entry':
                            continue                        # value slot of the re-initialised entry
                        if not p['st'].regions[x[0]].alive:
                            continue                        # the replaced instance: written by its own destructor, then freed
                        ok = False                          # any store into a pre-existing solution object or the other registry
                    if not ok:
                        bad.append(pc_term(p['pc']))
                chk.paths_clean('init%s:%s:fresh-default-instance-mapped-and-selected' % (tag, n), bad, family='init',
                                sample=dict(obligation='masa_init(H,%s)' % n, paths=len(paths)),
                                replay=replay_script(chk, scalar, [
                                    # (i) re-initialise the SELECTED handle: fresh defaults
                                    'masa_init<Scalar>("a","%s"); masa_init<Scalar>("b","euler_2d"); masa_set_param<Scalar>("L",(Scalar)9.5);' % n,
                                    'masa_init<Scalar>("b","euler_2d"); printf("\\nR fresh %d\\n", masa_get_param<Scalar>("L")!=(Scalar)9.5);',
                                    'std::string s; masa_select_mms<Scalar>("a"); masa_get_name<Scalar>(&s); printf("R a %s\\n", s.c_str());',
                                    # (ii) re-initialise a handle that is NOT selected: it becomes the selected one, the other handle is untouched
                                    'masa_select_mms<Scalar>("b"); masa_set_param<Scalar>("L",(Scalar)7.25); masa_init<Scalar>("a","euler_3d");',
                                    'masa_get_name<Scalar>(&s); printf("R reinit_selects %s\\n", s.c_str()); masa_set_param<Scalar>("L",(Scalar)3.125);',
                                    'masa_select_mms<Scalar>("b"); printf("R b_untouched %d\\n", masa_get_param<Scalar>("L")==(Scalar)7.25); masa_get_name<Scalar>(&s); printf("R b %s\\n", s.c_str());',
                                    # (iii) a brand-new handle becomes selected
                                    'masa_init<Scalar>("c","heateq_1d_steady_const"); masa_get_name<Scalar>(&s); printf("R new_selected %s\\n", s.c_str());',
                                    # (iv) handles whose NAMES are related (prefix of a registered handle, the empty handle, case and blank variants, map neighbours)
                                    #      are still different handles: each keeps its own instance and parameter
                                    'masa_init<Scalar>("run10","%s"); masa_init<Scalar>("run1","euler_2d"); masa_set_param<Scalar>("L",(Scalar)4.5); masa_init<Scalar>("","euler_3d"); masa_set_param<Scalar>("L",(Scalar)5.5);' % n,
                                    'masa_init<Scalar>("Run10","euler_1d"); masa_init<Scalar>("run10 ","euler_1d"); masa_init<Scalar>("run","euler_1d"); masa_init<Scalar>("run100","euler_1d");',
                                    'masa_select_mms<Scalar>("run10"); masa_get_name<Scalar>(&s); printf("R related_long %s\\n", s.c_str());',
                                    'masa_select_mms<Scalar>("run1"); masa_get_name<Scalar>(&s); printf("R related_prefix %s %d\\n", s.c_str(), masa_get_param<Scalar>("L")==(Scalar)4.5);',
                                    'masa_select_mms<Scalar>(""); masa_get_name<Scalar>(&s); printf("R related_empty %s %d\\n", s.c_str(), masa_get_param<Scalar>("L")==(Scalar)5.5);'],
                                    ['R fresh 1', 'R a %s' % n, 'R reinit_selects euler_3d', 'R b_untouched 1', 'R b euler_2d', 'R new_selected heateq_1d_steady_const',
                                     'R related_long %s' % n, 'R related_prefix euler_2d 1', 'R related_empty euler_3d 1'], 're-initialisation of a handle'))
        # ---- the two registries are independent: <scalar> operations never touch the other registry or its objects
        st, handles, objs = R.build(w, scalar, ['euler_1d'], symbolic=True)
        st_alone = st.clone()
        sto = st
        S.api_init(w, sto, other, 'X0', 'euler_3d')        # one handle in the other precision as well
        sto.events, sto.writes = [], []
        rid_o = R.registry_global(sto, other)
        po, entso = R.snapshot(w, sto, other)
        ex = w.ex
        finit = S.api_fn(w, 'masa_init', scalar, 'std::string, std::string')
        fsel = S.api_fn(w, 'masa_select_mms', scalar, 'std::string')
        fset = S.api_fn(w, 'masa_set_param', scalar, 'std::string, %s' % scalar)
        bad = []
        for thunk in (lambda ex: ex.call(finit, [S.new_string(ex, H), S.new_string(ex, 'euler_2d')]),
                      lambda ex: ex.call(fsel, [S.new_string(ex, H)]),
                      lambda ex: ex.call(fset, [S.new_string(ex, NAME), V])):
            for p in ex.explore(sto, thunk, 64):
                if p['terminal'] is not None:
                    continue
                po1, entso1 = R.snapshot(w, p['st'], other)
                if p['error'] is not None or po1 != po or entso1 != entso or any(x[0] in (rid_o, po.rid) for x in ext_writes(p, sto)):
                    bad.append(pc_term(p['pc']))
        chk.paths_clean('independence:<%s>-operations-never-touch-the-<%s>-registry' % (scalar, other), bad, family='independence',
                        replay=replay_script(chk, scalar, ['masa_init<double>("d","euler_1d"); masa_init<long double>("e","euler_3d"); masa_set_param<double>("L",2.5); masa_set_param<long double>("L",7.5L);',
                                                           'std::string a,b; masa_get_name<double>(&a); masa_get_name<long double>(&b); printf("\\nR %s %s %d %d\\n", a.c_str(), b.c_str(), masa_get_param<double>("L")==2.5, masa_get_param<long double>("L")==7.5L);'],
                                             ['R euler_1d euler_3d 1 1'], 'double/long double registries'))
        # ---- ... and what <scalar> observers report does not depend on the other registry: every observer gives the same result (value, outputs,
        #      printed lines, termination) with the other registry empty and with a 3-D solution selected there
        def obs_name(ex):
            sp = S.new_string(ex, '')
            r = ex.call(S.api_fn(w, 'masa_get_name', scalar, 'std::string*'), [sp])
            return (r, models.get_str(ex, sp).v)

        def obs_dim(ex):
            r_ = ex.st.new_region('alloca', 4, 'harness:int')
            r = ex.call(S.api_fn(w, 'masa_get_dimension', scalar, 'int*'), [Ptr(r_.rid, 0)])
            return (r, ex.st.mem.get((r_.rid, 0), (4, None))[1])
        observers = [('masa_get_name', obs_name), ('masa_get_dimension', obs_dim),
                     ('masa_sanity_check', lambda ex: ex.call(S.api_fn(w, 'masa_sanity_check', scalar, ''), [])),
                     ('masa_get_param', lambda ex: ex.call(S.api_fn(w, 'masa_get_param', scalar, 'std::string'), [S.new_string(ex, 'L')])),
                     ('masa_list_mms', lambda ex: ex.call(S.api_fn(w, 'masa_list_mms', scalar, ''), [])),
                     ('masa_eval_exact_rho', lambda ex: ex.call(S.api_fn(w, 'masa_eval_exact_rho', scalar, scalar), [tm.sym('x')]))]
        for oname, othunk in observers:
            def summarise(paths, base):
                out = []
                for p in paths:
                    couts = tuple(str(e[1]) for e in p['st'].events[len(base.events):] if e[0] == 'cout')
                    out.append((repr(p['ret']), couts, repr(p['terminal']), repr(p['error']) if p['error'] is not None else None, tuple(sorted((c.id, b) for c, b in p['pc']))))
                return sorted(out)
            try:
                ra = summarise(ex.explore(st_alone, othunk, 16), st_alone)
                rb = summarise(ex.explore(sto, othunk, 16), sto)
            except KeyError:
                continue
            chk.paths_clean('independence:<%s>:%s-reports-the-same-with-and-without-a-<%s>-solution' % (scalar, oname, other), [] if ra == rb else [tm.TRUE],
                            key='independence:%s' % oname, family='independence', sample=dict(obligation=oname, alone=str(ra)[:300], with_other=str(rb)[:300]),
                            replay=replay_script(chk, scalar, ['masa_init<%s>("own","euler_1d"); masa_init<%s>("oth","euler_3d"); int d_=0; std::string n_; masa_get_dimension<%s>(&d_); masa_get_name<%s>(&n_);' % (scalar, other, scalar, scalar),
                                                               'printf("\\nR own %s %d\\n", n_.c_str(), d_);'], ['R own euler_1d 1'], '%s<%s> depends on the %s registry' % (oname, scalar, other)))
        # ---- ... and the same for EVERY entry point MASA::masa_*<scalar> found in the IR (evaluators of every arity, purge, init_param,
        #      vectors, display, sanity check): generic arguments, other registry empty vs. populated; no store into the other registry
        w.models.callback_hook = lambda ex, cv, args, ins: tm.uf('call:' + cv.p, *[a if isinstance(a, T) else tm.iconst(a) for a in args])
        fs = 8 if scalar == 'double' else 16
        done = set(o[0] for o in observers) | set(['masa_init', 'masa_select_mms', 'masa_test_default', 'masa_test_poly', 'masa_printid'])
        swept = 0
        for fn, aname, sig in api_catalogue(w, scalar):
            key_ = (aname, sig)
            if aname in done and not aname.startswith('masa_eval_'):
                continue
            parts = [x.strip() for x in sig.split(',')] if sig.strip() else []

            def gthunk(ex, fn=fn, parts=parts):
                args, outs = [], []
                for k, t_ in enumerate(parts):
                    if t_ == scalar:
                        args.append(tm.sym('arg%d' % k))
                    elif t_ == 'int':
                        args.append(tm.sym('iarg%d' % k, 'I'))
                    elif '(*)' in t_:
                        args.append(tm.sym('callback%d' % k, 'P'))
                    elif t_ == 'std::string':
                        args.append(S.new_string(ex, 'L'))
                    elif t_ == 'std::string*':
                        sp = S.new_string(ex, '')
                        args.append(sp)
                        outs.append(('str', sp))
                    elif t_ == 'int*':
                        r_ = ex.st.new_region('alloca', 4, 'harness:int')
                        args.append(Ptr(r_.rid, 0))
                        outs.append(('int', r_))
                    elif t_.startswith('std::vector<'):
                        a_ = ex.st.new_region('alloca', 8, 'harness:vec')
                        models.new_vec(ex, Ptr(a_.rid, 0), fs, 2, lambda i: tm.sym('ve%d' % i))
                        args.append(Ptr(a_.rid, 0))
                        outs.append(('vec', a_))
                    else:
                        raise KeyError(t_)
                r = ex.call(fn, args)
                res = [repr(r)]
                for kind, o in outs:
                    if kind == 'str':
                        res.append(repr(models.get_str(ex, o).v))
                    elif kind == 'int':
                        res.append(repr(ex.st.mem.get((o.rid, 0), (4, None))[1]))
                    else:
                        ov = ex.st.side[(o.rid, 0)]
                        res.append(repr([ex.load(Ptr(ov.buf, i * fs), fs, 'f64') for i in range(ov.n)] if isinstance(ov.n, int) else ov.n))
                return tuple(res)

            def summ(paths, base):
                out = []
                for p in paths:
                    couts = tuple(str(e[1]) for e in p['st'].events[len(base.events):] if e[0] == 'cout')
                    out.append((repr(p['ret']), couts, repr(p['terminal']), repr(p['error']) if p['error'] is not None else None, tuple(sorted((c.id, b) for c, b in p['pc']))))
                return sorted(out)
            try:
                pa = ex.explore(st_alone, gthunk, 32)
                pb = ex.explore(sto, gthunk, 32)
            except (KeyError, ExecError) as e_:
                chk.notes.append('independence sweep: %s(%s) not executed (%s)' % (aname, sig, str(e_)[:80]))
                continue
            swept += 1
            chk.functions.add(fn)
            ra, rb = summ(pa, st_alone), summ(pb, sto)
            touched = False
            for p in pb:
                if p['terminal'] is not None or p['error'] is not None:
                    continue
                po1, entso1 = R.snapshot(w, p['st'], other)
                if po1 != po or entso1 != entso or any(x[0] in (rid_o, po.rid) for x in ext_writes(p, sto)):
                    touched = True
            sc_o = 'long double' if other == 'long double' else 'double'
            arglist = []
            for k, t_ in enumerate(parts):
                arglist.append('(Scalar)0.375' if t_ == scalar else '1' if t_ == 'int' else 'cb_' if '(*)' in t_ else 'std::string("L")' if t_ == 'std::string' else '&n_' if t_ == 'std::string*' else '&d_' if t_ == 'int*' else 'v_')
            call = '%s<Scalar>(%s)' % (aname, ', '.join(arglist))
            # replay: the call's printed result with the other registry empty (process A, own handle only) must equal the one with the other
            # registry populated and modified (process B); B also checks the other registry's parameter afterwards
            lines = ['std::string n_; int d_ = 0; std::vector<Scalar> v_(2, (Scalar)0.5); (void)n_; (void)d_;',
                     'masa_init<Scalar>("own","euler_3d");',
                     'if(getenv("MV_OTHER")) { masa_init<%s>("oth","euler_1d"); masa_set_param<%s>("L",(%s)2.5); }' % (other, other, rpx(other)),
                     'printf("\\nR call "); pr_(%s); printf(" %%s %%d %%d\\n", n_.c_str(), d_, (int)v_.size());' % call if not sig_void(w, fn) else '%s; printf("\\nR call void %%s %%d %%d\\n", n_.c_str(), d_, (int)v_.size());' % call,
                     'if(getenv("MV_OTHER")) printf("R other_untouched %%d\\n", masa_get_param<%s>("L")==(%s)2.5);' % (other, rpx(other))]
            chk.paths_clean('independence:<%s>:%s(%s)-same-with-and-without-a-<%s>-solution-and-leaves-it-untouched' % (scalar, aname, sig, other),
                            [] if (ra == rb and not touched) else [tm.TRUE], key='independence:%s(%s)' % (aname, sig), family='independence',
                            sample=dict(obligation=aname, alone=str(ra)[:300], with_other=str(rb)[:300], touched=touched),
                            replay=two_process_replay(chk, scalar, lines, '%s<%s> depends on or modifies the %s registry' % (aname, scalar, other)))
        chk.bounds['independence_entry_points_%s' % scalar.replace(' ', '_')] = swept
    # ---- bounded exploration of API SEQUENCES from the empty registry (concrete handles, symbolic parameter values):
    #      catches state that the one-step check's constructed pre-states do not contain (e.g. a cached 'last selected' name)
    depth = 4 if chk.tier == 'quick' else 5
    for scalar in (('double',) if chk.tier == 'quick' else ('double', 'long double')):
        sequences(chk, w, scalar, depth)
    chk.bounds['api_sequence_depth'] = depth
    chk.solve_all()


def sequences(chk, w, scalar, depth):
    """every sequence of at most `depth` operations over {init(A,n1), init(B,n1), init(A,n2), select(A), select(B), set(p:=V_k)}
    executed on the IR from the empty registry; after every step the registry snapshot (handles -> solution name, selected handle)
    and the first parameter of every instance are compared with a reference map."""
    ex = w.ex
    n1, n2 = 'euler_1d', 'heateq_1d_steady_const'
    finit = S.api_fn(w, 'masa_init', scalar, 'std::string, std::string')
    fsel = S.api_fn(w, 'masa_select_mms', scalar, 'std::string')
    fset = S.api_fn(w, 'masa_set_param', scalar, 'std::string, %s' % scalar)
    S.install_api_models(w)
    first_param = {n1: 'L', n2: 'A_x'}
    ops = [('init', 'A', n1), ('init', 'B', n1), ('init', 'A', n2), ('select', 'A'), ('select', 'B'), ('set',)]

    def observe(st):
        ptr, ents = R.snapshot(w, st, scalar)
        sel = None
        view = {}
        for h, p in ents.items():
            d = w.describe(st, p, scalar)
            pn = first_param.get(d['name'])
            a = d['params'].get(pn, (None, None))[1] if pn else None
            view[h] = (d['name'], st.mem[(a.rid, a.off)][1] if a is not None else None)
            if p == ptr:
                sel = h
        return sel, view

    bad = []
    count = [0]
    seen_samples = []

    def step(st, ref, seq):
        if len(seq) >= depth:
            return
        for k, op in enumerate(ops):
            ex.st = st.clone()
            ex.schedule, ex.decisions, ex.pending = [], [], []
            nref = dict(sel=ref['sel'], view=dict(ref['view']))
            fatal = False
            try:
                if op[0] == 'init':
                    ex.call(finit, [S.new_string(ex, op[1]), S.new_string(ex, op[2])])
                    st_c, refsol = w.find(scalar, op[2])
                    pn = first_param[op[2]]
                    a = refsol['params'][pn][1]
                    nref['view'][op[1]] = (op[2], st_c.mem[(a.rid, a.off)][1])
                    nref['sel'] = op[1]
                elif op[0] == 'select':
                    if op[1] not in ref['view']:
                        fatal = True
                    ex.call(fsel, [S.new_string(ex, op[1])])
                    nref['sel'] = op[1]
                else:
                    if ref['sel'] is None:
                        fatal = True
                        ex.call(fset, [S.new_string(ex, 'L'), tm.sym('V0')])
                    else:
                        nm = ref['view'][ref['sel']][0]
                        val = tm.sym('V%d' % (len(seq) + 1))
                        ex.call(fset, [S.new_string(ex, first_param[nm]), val])
                        nref['view'][ref['sel']] = (nm, val)
                if ex.pending:
                    raise ExecError('sequence step forked')
                ended = False
            except framework_terminal() as t:
                ended = True
            count[0] += 1
            nseq = seq + [op]
            if ended != fatal:
                bad.append((nseq, 'terminated=%s, reference expects fatal=%s' % (ended, fatal)))
                continue
            if ended:
                continue
            got = observe(ex.st)
            if got != (nref['sel'], nref['view']):
                bad.append((nseq, 'library state %r, reference %r' % (got, (nref['sel'], nref['view']))))
                continue
            if len(seen_samples) < 3 and len(nseq) == depth:
                seen_samples.append(dict(sequence=[' '.join(o) for o in nseq], selected=got[0], handles={h: v[0] for h, v in got[1].items()}))
            step(ex.st, nref, nseq)

    st0 = w.base.clone()
    st0.events, st0.writes = [], []
    step(st0, dict(sel=None, view={}), [])
    chk.extra_cov['api_sequences_steps_executed<%s>' % scalar] = count[0]
    chk.samples.extend(seen_samples)
    why = '; '.join('%s: %s' % (' / '.join(' '.join(o) for o in sq), wh) for sq, wh in bad[:3])
    lines = []
    expected = None
    if bad:
        # replay the first failing sequence on the real library; every instance gets a distinct marker value right after its init so
        # that two handles of the same solution type can be told apart; the reference tracks the marker of the selected handle
        sq = bad[0][0]
        cnt = 0
        marker = {'A': 101.5, 'B': 202.5}
        rsel, rval, rname = None, {}, {}
        fresh = []
        for o in sq:
            if o[0] == 'init':
                # a (re-)initialised handle holds a fresh default instance: its first parameter is read back before the marker is written
                # (compared with the registered default taken from the catalogue object: no further API call that could disturb the registry state)
                st_c, refsol = w.find(scalar, o[2])
                a_ = refsol['params'][first_param[o[2]]][1]
                dflt = st_c.mem[(a_.rid, a_.off)][1]
                dflt = float(dflt.p) if isinstance(dflt, tm.T) and tm.isc(dflt) else None
                if dflt is None:
                    lines.append('masa_init<Scalar>("%s","%s");' % (o[1], o[2]))
                else:
                    lines.append('masa_init<Scalar>("%s","%s"); { long double f_ = (long double)masa_get_param<Scalar>("%s"); long double d_ = %rL; long double e_ = f_ > d_ ? f_ - d_ : d_ - f_; printf("\\nR fresh_after_init_%d %%d\\n", (int)(e_ <= 1e-12L * (1 + (d_ < 0 ? -d_ : d_)))); }'
                                 % (o[1], o[2], first_param[o[2]], dflt, len(fresh)))
                if dflt is not None:
                    fresh.append('R fresh_after_init_%d 1' % len(fresh))
                lines.append('masa_set_param<Scalar>("%s",(Scalar)%s);' % (first_param[o[2]], marker[o[1]]))
                rsel, rval[o[1]], rname[o[1]] = o[1], marker[o[1]], o[2]
            elif o[0] == 'select':
                lines.append('masa_select_mms<Scalar>("%s");' % o[1])
                rsel = o[1]
            else:
                cnt += 1
                lines.append('{ std::string n_; masa_get_name<Scalar>(&n_); masa_set_param<Scalar>(n_=="euler_1d" ? "L" : "A_x",(Scalar)%d.25); }' % cnt)
                rval[rsel] = cnt + 0.25
        lines.append('{ std::string n_; masa_get_name<Scalar>(&n_); printf("\\nR selected %s %.2f\\n", n_.c_str(), (double)masa_get_param<Scalar>(n_=="euler_1d" ? "L" : "A_x")); }')
        expected = ['R selected %s %.2f' % (rname.get(rsel), rval.get(rsel, 0))] + fresh
    chk.paths_clean('sequences<%s>:every-API-sequence-up-to-length-%d-matches-the-reference-registry' % (scalar, depth), [tm.TRUE] if bad else [], key='sequences', family='sequences',
                    sample=dict(obligation='API sequences', steps=count[0], failing=why),
                    replay=sequence_replay(chk, scalar, lines, bad[0] if bad else None, why, expected))


def framework_terminal():
    from exec import Terminal
    return Terminal


def sequence_replay(chk, scalar, lines, badseq, why, expected=None):
    def replay(ob, model):
        import replay as rp
        if badseq is None:
            return dict(reproduced=False, path=None, detail='')
        cxx = rp.SCALAR_CXX[scalar]
        want = expected
        src = '#include <masa.h>\n#include <cstdio>\n#include <string>\nusing namespace MASA;\ntypedef %s Scalar;\nint main(){\n%s\n return 0;}\n' % (cxx, '\n'.join(lines))
        rc, out, err = chk.lib().run(src)
        want = want if isinstance(want, list) else [want]
        if any(x not in out for x in want):
            path = chk.save_replay(ob, dict(obligation=ob.name, sequence=[' '.join(o) for o in badseq[0]], expected=want, stdout=out[-1500:], why=why), src)
            return dict(reproduced=True, path=path, detail='sequence %s: real library does not end with the reference selection (%s); %s' % (' / '.join(' '.join(o) for o in badseq[0]), want, why[:200]))
        return dict(reproduced=False, path=None, detail='real library follows the reference on the failing sequence (selection, markers, fresh defaults after each init): ' + why[:200])
    return replay


if __name__ == '__main__':
    framework.main('C12', body)
