"""C14 Catalogue integrity: every listed solution is reachable and self-consistent."""
import sys, os, json
sys.path.insert(0, os.path.join(os.path.dirname(os.path.abspath(__file__)), '..', 'mv'))
sys.path.insert(0, os.path.join(os.path.dirname(os.path.abspath(__file__)), '..'))
from fractions import Fraction
import terms as tm
from terms import T
import framework
import pde
import sol as S
from exec import Ptr, ExecError
from spec import api as A
import c15

HERE = os.path.dirname(os.path.abspath(__file__))
CAPS = json.load(open(os.path.join(HERE, '..', 'spec', 'capabilities.json')))
DIMS = json.load(open(os.path.join(HERE, '..', 'spec', 'dimensions.json')))
FIXTURES = ('masa_test_function', 'masa_uninit')
SENTINEL = tm.const(Fraction(-133, 100))


def fact(chk, name, ok, detail, key=None, replay=None, family=None):
    """ground obligation decided by symbolic execution: bad path list is [TRUE] when the fact fails"""
    chk.paths_clean(name, [] if ok else [tm.TRUE], key=key or name, family=family,
                    sample=dict(obligation=name, detail=detail), replay=replay)


def call_int_out(w, st, fn):
    """call an API int f(int*) / returns (ret, *out)"""
    ex = w.ex
    ex.st = st.clone()
    ex.schedule, ex.decisions, ex.pending = [], [], []
    r = ex.st.new_region('alloca', 4, 'harness:int')
    ret = ex.call(fn, [Ptr(r.rid, 0)])
    return ret, ex.load(Ptr(r.rid, 0), 4, 'i32')


def api_replay(chk, scalar, name, what):
    def replay(ob, model):
        import replay as rp
        cxx = rp.SCALAR_CXX[scalar]
        src = ('#include <masa.h>\n#include <cstdio>\n#include <string>\nusing namespace MASA;\nint main(){ masa_init<%s>("h","%s"); std::string n; masa_get_name<%s>(&n); int d=-7; masa_get_dimension<%s>(&d);\n'
               ' printf("\\nR name %%s\\nR dim %%d\\n", n.c_str(), d); printf("R init_param %%d\\n", masa_init_param<%s>()); printf("R sanity %%d\\n", masa_sanity_check<%s>()); return 0;}\n') % (cxx, name, cxx, cxx, cxx, cxx)
        rc, out, err = chk.lib().run(src)
        exp = ['R name %s' % name, 'R dim %d' % DIMS.get(name, -1), 'R init_param 0', 'R sanity 0']
        missing = [e for e in exp if e not in out]
        if missing or rc != 0:
            path = chk.save_replay(ob, dict(obligation=ob.name, expected=exp, stdout=out[-1500:], rc=rc, what=what), src)
            return dict(reproduced=True, path=path, detail='%s<%s>: %s; real library output lacks %r' % (name, scalar, what, missing))
        return dict(reproduced=False, path=None, detail='real library agrees with the specification')
    return replay


def body(chk):
    w = chk.world()
    w.models.callback_hook = c15.callback_hook
    chk.assumptions += ['documented capability/dimension tables = spec/capabilities.json, spec/dimensions.json (frozen)',
                        'masa_map summarised by its C13 contract inside masa_init', 'finite catalogue, enumerated exhaustively']
    chk.bounds = dict(space='finite: every catalogue entry x 2 scalar types, exhaustive', evaluator_arguments='symbolic (non-stub check) + one interior point with defaults on the real library')
    names_by_scalar = {}
    skipped = [0]
    concrete = []
    for scalar in ('double', 'long double'):
        st0, sols, _ = w.catalogue(scalar)
        names = [s['name'] for s in sols]
        names_by_scalar[scalar] = names
        # masa_printid prints exactly these names
        fn = S.api_fn(w, 'masa_printid', scalar, '')
        paths = w.ex.explore(w.base, lambda ex: ex.call(fn, []))
        printed = [e[1] for e in paths[0]['st'].events if e[0] == 'cout' and isinstance(e[1], str)]
        listed = [p for p in printed if p.strip() and not p.startswith('\n') and '*' not in p and 'MASA' not in p]
        fact(chk, 'printid<%s>:lists-catalogue' % scalar, listed == names and len(paths) == 1, 'printed=%r' % listed[:5], family='catalogue')
        fact(chk, 'catalogue<%s>:names-unique' % scalar, len(set(names)) == len(names), '%d names' % len(names), family='catalogue')
        apis = c15.api_list(w, scalar)
        base_vt = '_ZTVN4MASA21manufactured_solutionI%sEE' % S.SC[scalar]
        bslots = w.vtable_slots(dict(vtable=base_vt, vtoff=sols[0]['vtoff'], scalar=scalar))
        slot_virtual = {}
        for k, n in enumerate(bslots):
            if n:
                pv = A.parse_virtual(w.models.demangled(n), scalar)
                if pv:
                    slot_virtual[k] = (pv[1], pv[2])
        for s in sols:
            name = s['name']
            fact(chk, 'catalogue<%s>:%s:nonempty-normal-form' % (scalar, name), isinstance(name, str) and name != '' and S.normalise_name(name) == name,
                 'name=%r' % name, key='catalogue:%s:normal-form' % name, family='catalogue')
            # masa_init(h, name) executed on the IR selects it; masa_get_name returns the name
            try:
                v = pde.ApiView(chk, w, name, scalar)
                ok = v.sol['name'] == name
                ex = w.ex
                ex.st = v.st.clone()
                ex.schedule, ex.decisions, ex.pending = [], [], []
                out = S.new_string(ex, '')
                ex.call(S.api_fn(w, 'masa_get_name', scalar, 'std::string*'), [out])
                got = ex.st.side[(out.rid, out.off)].v
                ok = ok and got == name
                detail = 'get_name=%r' % (got,)
            except Exception as e:
                ok, detail, v = False, repr(e), None
            fact(chk, 'init<%s>:%s:reachable-and-get_name' % (scalar, name), ok, detail, key='init:%s:get_name' % name,
                 replay=api_replay(chk, scalar, name, 'masa_init/masa_get_name'), family='reachable')
            if name in FIXTURES or v is None:
                continue
            # concrete post-init state (defaults): init_param, sanity_check, dimension
            stc = v.st_concrete
            ex = w.ex
            for apiname, want in (('masa_init_param', 0), ('masa_sanity_check', 0)):
                ex.st = stc.clone()
                ex.schedule, ex.decisions, ex.pending = [], [], []
                try:
                    r = ex.call(S.api_fn(w, apiname, scalar, ''), [])
                    forked = bool(ex.pending)
                except Exception as e:
                    r, forked = repr(e), False
                fact(chk, '%s<%s>:%s:returns-0' % (apiname, scalar, name), r == want and not forked, 'returned %r' % (r,),
                     key='%s:%s' % (apiname, name), replay=api_replay(chk, scalar, name, apiname), family='post-init')
            try:
                ret, dim = call_int_out(w, stc, S.api_fn(w, 'masa_get_dimension', scalar, 'int*'))
            except Exception as e:
                dim = repr(e)
            fact(chk, 'dimension<%s>:%s' % (scalar, name), dim == DIMS.get(name), 'library %r, documented %r' % (dim, DIMS.get(name)),
                 key='dimension:%s' % name, replay=api_replay(chk, scalar, name, 'masa_get_dimension'), family='post-init')
            # every documented evaluator is wired to a real implementation (not the base stub), for arbitrary arguments
            caps = CAPS.get(name, [])
            for cap in caps:
                meth, sig = cap[:-1].split('(')
                cands = [(fn_, api, sg) for fn_, api, sg in apis if A.virtual_of(api) == meth and sg == sig]
                if not cands:
                    fact(chk, 'documented<%s>:%s:%s' % (scalar, name, cap), False, 'no API template reaches this virtual', key='documented:%s:%s' % (name, cap), family='documented')
                    continue
                fn_, api, sg = cands[0]
                # (a) the vtable slot of this virtual is overridden by the class (not the base-class stub)
                slots = w.vtable_slots(v.sol)
                kslot = [k for k, (m_, s_) in slot_virtual.items() if (m_, s_) == (meth, sig)]
                target = slots[kslot[0]] if kslot else None
                overridden = bool(target) and not w.models.demangled(target).startswith('MASA::manufactured_solution<')
                fact(chk, 'documented<%s>:%s:%s:slot-overridden' % (scalar, name, cap), overridden, 'slot target %s' % (w.models.demangled(target) if target else None),
                     key='documented:%s:%s' % (name, cap), family='documented',
                     replay=(lambda ob, model, name=name, api=api, sg=sg, scalar=scalar: doc_replay(chk, scalar, name, api, sg)))
                # (b) through the API with arbitrary arguments no path reaches a stub (skipped, and said so, where the
                #     implementation's own loops exceed the path bound -- those are C05/C08's subject)
                args = c15.sym_args(sg)
                try:
                    paths = w.ex.explore(v.st, lambda ex: ex.call(fn_, list(args)), 48)
                except ExecError as e:
                    chk.notes.append('path check skipped for %s:%s (%s)' % (name, cap, e))
                    skipped[0] += 1
                    paths = None
                if paths is not None:
                    bad = []
                    for p in paths:
                        couts = [e[1] for e in p['st'].events if e[0] == 'cout' and isinstance(e[1], str)]
                        if p['ret'] is SENTINEL or any('MASA ERROR' in c for c in couts):
                            bad.append(pde.pc_term(p['pc']))
                    chk.paths_clean('documented<%s>:%s:%s:no-stub-path' % (scalar, name, cap), bad, key='documented:%s:%s' % (name, cap), family='documented',
                                    sample=dict(obligation='documented:%s:%s' % (name, cap), api=api, paths=len(paths)),
                                    replay=(lambda ob, model, name=name, api=api, sg=sg, scalar=scalar: doc_replay(chk, scalar, name, api, sg)))
                concrete.append((scalar, name, api, sg))
    fact(chk, 'catalogue:double==long double', names_by_scalar['double'] == names_by_scalar['long double'], 'lists compared', family='catalogue')
    chk.solve_all()
    # finite part of the statement on the real library: every documented evaluator at an interior point with default parameters
    nbad = 0
    expected = 0
    import replay as rp
    lines = ['#include <masa.h>', '#include <cstdio>', '#include <cmath>', 'using namespace MASA;',
             'double cbd(double t){return std::exp(-1.0/t);}', 'long double cbe(long double t){return std::exp(-1.0L/t);}', 'int main(){']
    for scalar in ('double', 'long double'):
        cxx = rp.SCALAR_CXX[scalar]
        cur = None
        for (sc, name, api, sg) in concrete:
            if sc != scalar:
                continue
            if cur != name:
                h_ = '%s_%s' % (name, 'd' if scalar == 'double' else 'e')
                lines.append('  printf("\\nI %s|%s\\n"); fflush(stdout); masa_init<%s>("%s","%s");' % (scalar.replace(' ', '_'), name, cxx, h_, name))
                # masa_init of an EXISTING handle with the same solution also yields a usable default instance (whatever was done to the old one)
                lines.append('  masa_purge_default_param<%s>(); masa_init<%s>("%s","%s"); printf("\\nR %s|%s|reinit-after-purge %%d 0\\n", (int)(masa_sanity_check<%s>()==0));'
                             % (cxx, cxx, h_, name, scalar.replace(' ', '_'), name, cxx))
                expected += 1
                cur = name
            pts = ['0.37', '0.41', '0.43', '0.47']
            parts = sg.split(',') if sg else []
            # an evaluator with a direction index is called for every valid direction 1..(number of space coordinates)
            dirs = list(range(1, min(3, parts.count('S')) + 1)) if 'int' in parts else [None]
            for di in dirs:
                a = []
                for k, p in enumerate(parts):
                    a.append('(%s)%s' % (cxx, pts[k]) if p == 'S' else (str(di) if p == 'int' else ('cbd' if scalar == 'double' else 'cbe')))
                expected += 1
                lines.append('  { %s v = %s<%s>(%s); printf("\\nR %s|%s|%s(%s)%s %%d %%.17Lg\\n", (int)(std::isfinite((double)v) && v != (%s)(-1.33)), (long double)v); }'
                             % (cxx, api, cxx, ','.join(a), scalar.replace(' ', '_'), name, api, sg, '' if di is None else '[i=%d]' % di, cxx))
    lines.append('  return 0;}')
    rc, out, err = chk.lib().run('\n'.join(lines) + '\n')
    seen = 0
    for line in out.split('\n'):
        if line.startswith('R '):
            seen += 1
            tag, ok, val = line[2:].rsplit(' ', 2)
            if ok != '1':
                nbad += 1
                path = chk.save_replay('interior:' + tag, dict(case=tag, value=val), '\n'.join(lines))
                chk.report_violation('interior:' + tag.split('|', 1)[1], path, 'documented evaluator returns %s at the interior point with default parameters' % val)
    if seen != expected:
        # the real library died (masa_init of a listed name is fatal, or an evaluator crashed): the last marker names the entry
        marks = [l[2:] for l in out.split('\n') if l.startswith('I ')]
        last = marks[-1] if marks else '?'
        path = chk.save_replay('reachable:' + last, dict(case=last, rc=rc, stdout_tail=out[-600:]), '\n'.join(lines))
        chk.report_violation('reachable:' + last.split('|')[-1], path, 'the real library terminated (rc=%s) at catalogue entry %s: a listed solution cannot be initialised / evaluated with its defaults' % (rc, last))
    chk.extra_cov['interior_point_evaluations_on_real_library'] = seen
    chk.extra_cov['exhaustive'] = True
    chk.extra_cov['path_checks_skipped_for_loops'] = skipped[0]


def doc_replay(chk, scalar, name, api, sg):
    import replay as rp
    cxx = rp.SCALAR_CXX[scalar]
    a = []
    decl = '%s cbk(%s t){return t;}\n' % (cxx, cxx)
    for k, p in enumerate(sg.split(',') if sg else []):
        a.append('(%s)0.37' % cxx if p == 'S' else ('2' if p == 'int' else 'cbk'))
    src = ('#include <masa.h>\n#include <cstdio>\nusing namespace MASA;\n%sint main(){ masa_init<%s>("h","%s"); %s v = %s<%s>(%s);\n'
           ' printf("\\nR is_sentinel %%d\\n", v == (%s)(-1.33)); return 0;}\n') % (decl, cxx, name, cxx, api, cxx, ','.join(a), cxx)
    rc, out, err = chk.lib().run(src)
    if 'R is_sentinel 1' in out or 'MASA ERROR' in out or rc != 0:
        path = chk.save_replay('documented:%s:%s' % (name, api), dict(solution=name, api=api, stdout=out[-1500:], rc=rc), src)
        return dict(reproduced=True, path=path, detail='%s<%s>: documented evaluator %s(%s) falls through to the base-class stub' % (name, scalar, api, sg))
    return dict(reproduced=False, path=None, detail='')


if __name__ == '__main__':
    framework.main('C14', body)
