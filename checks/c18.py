"""C18 Fortran and Python bindings match the C ABI they bind to (SysV AMD64 slot model, z3 bit-vectors)."""
import sys, os, re
sys.path.insert(0, os.path.join(os.path.dirname(os.path.abspath(__file__)), '..', 'mv'))
sys.path.insert(0, os.path.join(os.path.dirname(os.path.abspath(__file__)), '..'))
import framework
import c17
import build
from c17 import c_signatures

INT_REGS = ['rdi', 'rsi', 'rdx', 'rcx', 'r8', 'r9']
SSE_REGS = ['xmm%d' % i for i in range(8)]


class Unparsed(Exception):
    pass


def strip_comment(line):
    # Fortran comment: '!' outside quotes
    out, q = '', None
    for ch in line:
        if q:
            out += ch
            if ch == q:
                q = None
        elif ch in '\'"':
            q = ch
            out += ch
        elif ch == '!':
            break
        else:
            out += ch
    return out.rstrip()


def parse_fortran(path):
    """-> list of dict(fname, cname, kind 'subroutine'|'function', result, args=[dict(name, type, value, array, proc, proc_args)])"""
    raw = [strip_comment(l) for l in open(path).read().split('\n')]
    # free-form continuation: a trailing '&' joins the next line (whose leading '&' is dropped)
    lines, acc = [], None
    for l in raw:
        t = l.strip()
        if acc is not None:
            t = t[1:].lstrip() if t.startswith('&') else t
            acc = acc + ' ' + t
        else:
            acc = l
        if acc.rstrip().endswith('&'):
            acc = acc.rstrip()[:-1]
            lines.append('')            # keep the line count
            continue
        lines.append(acc)
        acc = None
    out = []
    i = 0
    hdr = re.compile(r'^\s*(?:(real|integer|character)\s*\(\s*(\w+)\s*\)\s+)?(subroutine|function)\s+(\w+)\s*\(([^)]*)\)\s*bind\s*\(\s*C\s*,\s*name\s*=\s*[\'"](\w+)[\'"]\s*\)', re.I)
    while i < len(lines):
        m = hdr.match(lines[i])
        if not m:
            i += 1
            continue
        rtype, rkind, kind, fname, arglist, cname = m.groups()
        args = [a.strip() for a in arglist.split(',') if a.strip()]
        decls = {}
        result = (rtype.lower(), rkind.lower()) if rtype else None
        i += 1
        depth = 0
        cur_proc = None
        while i < len(lines):
            l = lines[i].strip()
            low = l.lower()
            if depth == 0 and re.match(r'^end\s+(subroutine|function)', low):
                break
            if re.match(r'^(abstract\s+)?interface\b', low):
                depth += 1
                i += 1
                continue
            if re.match(r'^end\s+interface', low):
                depth -= 1
                i += 1
                continue
            if depth > 0:
                pm = re.match(r'^(?:(real|integer)\s*\(\s*(\w+)\s*\)\s+)?function\s+(\w+)\s*\(([^)]*)\)\s*(bind\s*\(\s*c\s*\))?', low)
                if pm:
                    cur_proc = dict(name=pm.group(3), args=[a.strip() for a in pm.group(4).split(',') if a.strip()], bind=bool(pm.group(5)), decls={}, result=(pm.group(1), pm.group(2)) if pm.group(1) else None)
                    decls[cur_proc['name']] = dict(proc=cur_proc)
                elif cur_proc is not None:
                    dm = re.match(r'^(real|integer|character)\s*\(\s*(\w+)\s*\)\s*((?:,\s*[\w()*]+\s*)*)::\s*(.+)$', low)
                    if dm:
                        attrs = [a.strip() for a in dm.group(3).split(',') if a.strip()]
                        for nm in dm.group(4).split(','):
                            nm = nm.strip()
                            if nm == cur_proc['name']:
                                cur_proc['result'] = (dm.group(1), dm.group(2))
                            else:
                                cur_proc['decls'][nm] = dict(type=(dm.group(1), dm.group(2)), value='value' in attrs)
                    elif low.startswith('end function'):
                        cur_proc = None
                    elif low == '' or low.startswith(('use', 'import', 'implicit')):
                        pass
                    else:
                        raise Unparsed('%s: line %d: %r' % (fname, i + 1, l))
                i += 1
                continue
            if low == '' or low.startswith(('use', 'import', 'implicit')):
                i += 1
                continue
            dm = re.match(r'^(real|integer|character)\s*\(\s*(\w+)\s*\)\s*((?:,\s*[\w()*]+\s*)*)::\s*(.+)$', l, re.I)
            if not dm:
                raise Unparsed('%s: line %d: %r' % (fname, i + 1, l))
            attrs = [a.strip().lower() for a in dm.group(3).split(',') if a.strip()]
            for nm in re.split(r',(?![^()]*\))', dm.group(4)):
                nm = nm.strip()
                arr = bool(re.search(r'\(\s*\*\s*\)', nm)) or any(a.startswith('dimension') for a in attrs)
                nm = re.sub(r'\(.*\)', '', nm).strip()
                decls[nm.lower()] = dict(type=(dm.group(1).lower(), dm.group(2).lower()), value='value' in attrs, array=arr)
            i += 1
        alist = []
        for a in args:
            d = decls.get(a.lower())
            if d is None:
                raise Unparsed('%s: dummy %s has no declaration' % (fname, a))
            d = dict(d)
            d['name'] = a
            alist.append(d)
        if kind.lower() == 'function' and result is None and fname.lower() in decls:
            result = decls[fname.lower()]['type']           # result type declared in the body
        out.append(dict(fname=fname, cname=cname, kind=kind.lower(), result=result, args=alist))
        i += 1
    return out


def parse_header(path):
    """extern declarations inside the extern "C" block of masa.h(.in) -> {name: (ret, [kinds])}"""
    txt = open(path).read()
    m = re.search(r'extern\s+"C"\s*\{(.*?)\n\}', txt, re.S)
    if not m:
        raise Unparsed('no extern "C" block in %s' % path)
    block = re.sub(r'/\*.*?\*/', '', m.group(1), flags=re.S)
    block = re.sub(r'//[^\n]*', '', block)
    block = re.sub(r'^\s*#[^\n]*', '', block, flags=re.M)
    FN_TYPEDEFS.update(c17.function_pointer_typedefs(txt))
    block = re.sub(r'typedef[^;]*;', '', block)
    decls = {}
    for dm in re.finditer(r'(?:extern\s+)?(?:const\s+)?\b(int|double|void)\s+(masa_\w+)\s*\(([^;{}]*)\)\s*;', block):
        ret, name, params = dm.group(1).strip(), dm.group(2), dm.group(3)
        decls[name] = (ret, kinds_of(params))
    return decls


FN_TYPEDEFS = set()


def kinds_of(params):
    kinds, depth, cur, parts = [], 0, '', []
    for ch in params:
        if ch == '(':
            depth += 1
        if ch == ')':
            depth -= 1
        if ch == ',' and depth == 0:
            parts.append(cur)
            cur = ''
        else:
            cur += ch
    if cur.strip():
        parts.append(cur)
    for p in parts:
        k_ = c17.param_kind(p, FN_TYPEDEFS)
        if k_ is not None:
            kinds.append(k_)
    return kinds


def caller_view(f):
    """Fortran caller per SysV: list of (slot, expr) writes and the per-argument intent"""
    ni = ns = 0
    writes, intents = [], []
    for k, a in enumerate(f['args']):
        if 'proc' in a:
            slot, ni = INT_REGS[ni], ni + 1
            writes.append((slot, 'addr%d' % k))
            p = a['proc']
            byval = all(p['decls'].get(x, {}).get('value') for x in p['args'])
            intents.append(('fn', 'addr%d' % k, byval, p))
        elif a['value'] and not a.get('array'):
            if a['type'][0] == 'real':
                slot, ns = SSE_REGS[ns], ns + 1
                writes.append((slot, 'fval%d' % k))
                intents.append(('dbl', 'fval%d' % k))
            elif a['type'][0] == 'integer':
                slot, ni = INT_REGS[ni], ni + 1
                writes.append((slot + ':lo32', 'ival%d' % k))
                intents.append(('int', 'ival%d' % k))
            else:
                raise Unparsed('by-value %r' % (a,))
        else:
            slot, ni = INT_REGS[ni], ni + 1
            writes.append((slot, 'addr%d' % k))
            kind = {'character': 'cstr', 'integer': 'intp', 'real': 'dblp'}[a['type'][0]]
            intents.append((kind, 'addr%d' % k))
    return writes, intents


def smt_query(f, ckinds, cret):
    """SMT-LIB2 (QF_BV): caller writes its arguments per the Fortran interface; callee reads per the C definition.
    Asserts the NEGATION of 'every callee parameter observes the caller's intended argument of the same kind and the
    Fortran result is read from the register the C function writes'.  unsat = compatible."""
    writes, intents = caller_view(f)
    lines = ['(set-logic QF_BV)']
    for r in INT_REGS + SSE_REGS + ['rax_out', 'xmm0_out']:
        lines.append('(declare-const %s (_ BitVec 64))' % r)
    for k in range(len(f['args'])):
        lines.append('(declare-const addr%d (_ BitVec 64))' % k)
        lines.append('(declare-const fval%d (_ BitVec 64))' % k)
        lines.append('(declare-const ival%d (_ BitVec 32))' % k)
    lines.append('(declare-const cret_int (_ BitVec 32))')
    lines.append('(declare-const cret_dbl (_ BitVec 64))')
    for slot, e in writes:
        if slot.endswith(':lo32'):
            lines.append('(assert (= ((_ extract 31 0) %s) %s))' % (slot[:-5], e))
        else:
            lines.append('(assert (= %s %s))' % (slot, e))
    # callee return
    if cret == 'int':
        lines.append('(assert (= ((_ extract 31 0) rax_out) cret_int))')
    elif cret == 'double':
        lines.append('(assert (= xmm0_out cret_dbl))')
    goals = []
    ni = ns = 0
    if len(ckinds) != len(intents):
        goals.append('false')
    for j, ck in enumerate(ckinds):
        intent = intents[j] if j < len(intents) else None
        if ck == 'dbl':
            slot, ns = SSE_REGS[ns], ns + 1
            goals.append('(= %s %s)' % (slot, intent[1]) if intent and intent[0] == 'dbl' else 'false')
        elif ck == 'int':
            slot, ni = INT_REGS[ni], ni + 1
            goals.append('(= ((_ extract 31 0) %s) %s)' % (slot, intent[1]) if intent and intent[0] == 'int' else 'false')
        else:
            slot, ni = INT_REGS[ni], ni + 1
            compat = intent and ((ck in ('cstr', 'charbuf') and intent[0] == 'cstr') or (ck == intent[0]))
            if ck == 'fn' and compat:
                compat = intent[2]       # C calls the callback with a double BY VALUE; the Fortran interface of the procedure dummy must say so
            goals.append('(= %s %s)' % (slot, intent[1]) if compat else 'false')
    # result
    if f['kind'] == 'function':
        if f['result'] and f['result'][0] == 'real':
            goals.append('(= xmm0_out cret_dbl)' if cret == 'double' else 'false')
        elif f['result'] and f['result'][0] == 'integer':
            goals.append('(= ((_ extract 31 0) rax_out) cret_int)' if cret == 'int' else 'false')
        else:
            goals.append('false')
    # a Fortran subroutine reads no result register: compatible with void and with a discarded int/double status
    lines.append('(assert (not (and true %s)))' % ' '.join(goals))
    lines.append('(check-sat)')
    return '\n'.join(lines) + '\n', goals


def body(chk):
    chk.assumptions += ['System V AMD64 calling convention (INTEGER class: rdi,rsi,rdx,rcx,r8,r9; SSE class: xmm0-7; results rax/xmm0); at most 6 integer and 8 SSE arguments',
                        'the Fortran module is parsed, not compiled (no Fortran front end in the image); any construct outside the parsed subset fails the run',
                        'a Fortran SUBROUTINE bound to a C function returning int is register-compatible (the status is discarded) and is accepted; a FUNCTION must read the register class the C function writes']
    chk.bounds = dict(space='every bind(C,name=...) interface of masa.f90 and every extern declaration of masa.h.in; finite, exhaustive')
    src = os.path.join(build.REPO, 'src')
    try:
        fort = parse_fortran(os.path.join(src, 'masa.f90'))
        hdr = parse_header(os.path.join(src, 'masa.h.in'))
    except Unparsed as e:
        chk.infra.append('unparsed interface: %s' % e)
        return
    cs = c_signatures()
    try:
        w = chk.world(units=['cmasa'])
        irdefs = {n: f for n, f in w.prog.functions.items() if not n.startswith('_Z') and '::' not in n}
    except RuntimeError as e:
        # clang refuses a definition whose C prototype conflicts with the declaration in masa.h (g++ only warns when the definition sits in a
        # namespace): that IS a declaration/definition mismatch; the comparison below then runs on the source signatures alone
        conflicts = sorted(set(re.findall(r"conflicting types for \W{1,3}(\w+)", str(e))))
        if not conflicts:
            raise
        chk.notes.append('clang rejects cmasa.cpp: conflicting types for %r; IR cross-check of the source signatures skipped' % conflicts)
        irdefs = {n: None for n in cs}
        for n in conflicts:
            chk.add(framework.Ob('header:%s:definition-compiles-against-its-declaration' % n, 'prop', '(assert true)\n(check-sat)\n', 'unsat',
                                 dict(obligation='masa.h declaration and cmasa.cpp definition of %s have conflicting types' % n, diagnostic=str(e)[-600:]), None, 'header:%s' % n, (), family='header'))
    chk.extra_cov['bind_c_interfaces'] = len(fort)
    chk.extra_cov['header_declarations'] = len(hdr)
    chk.extra_cov['c_definitions'] = len(irdefs)
    IRK = {'dbl': 'f64', 'int': 'i32', 'cstr': 'ptr', 'charbuf': 'ptr', 'intp': 'ptr', 'dblp': 'ptr', 'fn': 'ptr'}
    # source-level signature of each definition agrees with the IR signature (guards the text parser)
    for n, (ret, kinds) in cs.items():
        f = irdefs.get(n)
        if f is None and n in irdefs:
            continue            # no IR (see above)
        ok = f is not None and [p['t'] for p in f['params']] == [IRK.get(k) for k in kinds] and f['ret'] == {'int': 'i32', 'double': 'f64', 'void': 'void'}.get(ret)
        chk.add(framework.Ob('definition:%s:source-signature==IR-signature' % n, 'prop', '(assert %s)\n(check-sat)\n' % ('false' if ok else 'true'), 'unsat',
                             dict(obligation='cmasa.cpp signature of %s matches its IR' % n, kinds=kinds), None, 'definition:%s' % n, [n], family='definition'))
    for f in fort:
        name = f['cname']
        if name not in cs or name not in irdefs:
            chk.add(framework.Ob('fortran:%s:binds-a-defined-symbol' % name, 'prop', '(assert true)\n(check-sat)\n', 'unsat', dict(obligation='bind(C) symbol %s is defined by cmasa.cpp' % name),
                                 None, 'fortran:%s:defined' % name, (), family='fortran'))
            continue
        ret, kinds = cs[name]
        try:
            script, goals = smt_query(f, kinds, ret)
        except Unparsed as e:
            chk.infra.append('unparsed interface %s: %s' % (name, e))
            continue
        chk.add(framework.Ob('fortran:%s:abi' % name, 'prop', script, 'unsat',
                             dict(obligation='Fortran %s %s bind(C,name=%s) vs C %s %s(%s)' % (f['kind'], f['fname'], name, ret, name, ','.join(kinds)),
                                  fortran_args=[(a['name'], a.get('type'), a.get('value'), a.get('array')) if 'proc' not in a else (a['name'], 'procedure') for a in f['args']], goals=goals),
                             None, 'fortran:%s:abi' % name, [name], family='fortran'))
    for n, (ret, kinds) in sorted(hdr.items()):
        d = cs.get(n)
        ok = d is not None and n in irdefs and d[0] == ret and [k.replace('charbuf', 'cstr') if False else k for k in d[1]] == kinds
        chk.add(framework.Ob('header:%s:declared==defined' % n, 'prop', '(assert %s)\n(check-sat)\n' % ('false' if ok else 'true'), 'unsat',
                             dict(obligation='masa.h.in declares %s %s(%s); definition %r' % (ret, n, ','.join(kinds), d)), None, 'header:%s' % n, [n] if n in irdefs else (), family='header'))
    # SWIG module wraps exactly the header
    itxt = re.sub(r'//[^\n]*', '', open(os.path.join(src, 'masa.i')).read())
    incs = re.findall(r'%(?:include|import)\s+"([^"]+)"', itxt)
    extra = re.findall(r'^\s*(?:extern\s+)?(?:int|double|void)\s+\w+\s*\(', itxt, re.M)
    ok = incs == ['masa.h'] and not extra and re.search(r'%module\s+masa\b', itxt)
    chk.add(framework.Ob('swig:masa.i-wraps-exactly-masa.h', 'prop', '(assert %s)\n(check-sat)\n' % ('false' if ok else 'true'), 'unsat',
                         dict(obligation='masa.i', includes=incs, extra_declarations=extra), None, 'swig', (), family='swig'))
    # ... and SWIG sees the same header: the C declarations visible with SWIG defined (what `%include "masa.h"` hands to swig's preprocessor)
    # are exactly those visible without it (masa.h.in preprocessed both ways by clang -E; masa.h itself is configure output of the same text)
    import subprocess

    def visible(defs):
        hin = os.path.join(src, 'masa.h.in')
        p_ = subprocess.run(['clang-14', '-E', '-P', '-w', '-x', 'c'] + defs + [hin], stdout=subprocess.PIPE, stderr=subprocess.PIPE, universal_newlines=True, timeout=120)
        if p_.returncode != 0:
            raise Unparsed('masa.h.in does not preprocess: ' + p_.stderr[-300:])
        return set(re.findall(r'\b(masa_\w+)\s*\(', p_.stdout))
    try:
        plain, swig = visible([]), visible(['-DSWIG'])
        diff = sorted(plain ^ swig)
        chk.add(framework.Ob('swig:declarations-visible-to-SWIG==declarations-visible-to-C', 'prop', '(assert %s)\n(check-sat)\n' % ('true' if diff else 'false'), 'unsat',
                             dict(obligation='masa.h.in preprocessed with and without -DSWIG', only_in_one_view=diff[:10], c_view=len(plain), swig_view=len(swig)), None, 'swig:view', (), family='swig'))
    except Unparsed as e:
        chk.infra.append(str(e))
    # vacuity guard: a deliberately wrong binding must be reported (witness)
    if fort:
        import copy
        f2 = copy.deepcopy([f for f in fort if f['cname'] == 'masa_eval_2d_source_t'][0])
        f2['args'][1]['value'] = False
        script, _ = smt_query(f2, cs['masa_eval_2d_source_t'][1], 'double')
        chk.add(framework.Ob('witness:by-reference-y-is-detected', 'witness', script, 'sat', None, None, None, ()))
    for ob in chk.obs:
        ob.timeout = 30
    import smt
    smt.Z3  # queries use the default tactic
    chk.solve_all()


if __name__ == '__main__':
    framework.main('C18', body)
