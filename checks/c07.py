"""C07 Gradient API returns the partial derivatives of the exact fields; bad direction index -> error value."""
import sys, os
sys.path.insert(0, os.path.join(os.path.dirname(os.path.abspath(__file__)), '..', 'mv'))
sys.path.insert(0, os.path.join(os.path.dirname(os.path.abspath(__file__)), '..'))
import terms as tm
from terms import D
import framework
import pde
from pde import X, Y, Z, TT
from exec import ExecError

SOLS = {'euler_1d': 1, 'euler_2d': 2, 'euler_3d': 3, 'navierstokes_2d_compressible': 2, 'navierstokes_3d_compressible': 3}
I = tm.sym('i', 'I')


def api_replay(chk, view, api, args, libterm, ref, ivalue=None):
    """replay through the public API with the direction index fixed to ivalue"""
    def replay(ob, model):
        import random, replay as rp
        rng = random.Random(chk.seed + 3)
        names = list(view.P)
        coords = [a.p for a in args if a.sort == 'R']
        steps = [('init', view.scalar, 'h', view.name)]
        envs = []
        for k in range(3):
            env = pde.rand_env(rng, names, coords)
            envs.append(env)
            for n in names:
                steps.append(('set', view.scalar, n, env[n]))
            a = [env[x.p] if x.sort == 'R' else ivalue for x in args]
            steps.append(('eval', view.scalar, api, a, 'p%d' % k))
        src = rp.driver_source(steps)
        rc, out, err = chk.lib().run(src)
        res = rp.parse_results(out)
        for k, env in enumerate(envs):
            e = {n: rp.mp.mpf(v.numerator) / rp.mp.mpf(v.denominator) for n, v in env.items()}
            if ivalue is not None:
                e['i'] = rp.mp.mpf(ivalue)
            rv = tm.evalf([ref], e, rp.mp)[0]
            got = res.get('p%d' % k)
            if got is None:
                continue
            M = pde.magnitude(ref, e) + abs(rv)
            if abs(got - rv) > rp.mp.mpf('1e-6') * max(M, rp.mp.mpf('1e-30')):
                path = chk.save_replay(ob, dict(obligation=ob.name, env={n: str(v) for n, v in env.items()}, i=ivalue, library=str(got), reference=str(rv), stdout=out), src)
                return dict(reproduced=True, path=path, detail='%s<%s> %s(i=%s): library=%s reference=%s' % (view.name, view.scalar, api, ivalue, rp.mp.nstr(got, 17), rp.mp.nstr(rv, 17)))
        return dict(reproduced=False, path=None, detail='')
    return replay


def fatal_replay(chk, view, api, ncoords, dim):
    """the gradient entry point called in a process that initialised only this precision's registry must return (not end the process)"""
    def replay(ob, model):
        import replay as rp
        cxx = rp.SCALAR_CXX[view.scalar]
        call = '%s<Scalar>(%s%s)' % (api, ', '.join(['(Scalar)0.375'] * ncoords), ', 1' if dim > 1 else '')
        src = ('#include <masa.h>\n#include <cstdio>\nusing namespace MASA;\ntypedef %s Scalar;\nint main(){\n masa_init<Scalar>("h","%s");\n'
               ' Scalar g = %s;\n printf("\\nR returned %%d\\n", g == g);\n return 0;}\n') % (cxx, view.name, call)
        rc, out, err = chk.lib().run(src)
        if rc != 0 or 'R returned 1' not in out:
            path = chk.save_replay(ob, dict(obligation=ob.name, stdout=out[-1500:], rc=rc), src)
            return dict(reproduced=True, path=path, detail='%s<%s> %s after masa_init: rc=%s, output %r' % (view.name, view.scalar, api, rc, out[-160:]))
        return dict(reproduced=False, path=None, detail='real library returns')
    return replay


def body(chk):
    w = chk.world()
    chk.assumptions += ['real-arithmetic model of FP (formula layer)', 'sin/cos abstracted to points on the unit circle (sound)',
                        'direction index is an unbounded mathematical integer (encoded as a real; the library only compares it with constants)',
                        'entry through MASA::masa_eval_grad_*<Scalar> after masa_init executed on the IR (registry + virtual dispatch included); masa_map summarised by its C13 contract']
    chk.bounds = dict(values='unbounded', index='all integers (symbolic)', loops='none')
    for scalar in ('double', 'long double'):
        for name, dim in SOLS.items():
            v = pde.ApiView(chk, w, name, scalar)
            coords = [X, Y, Z][:dim]
            A = [tm.cmp('ne', v.P['L'], tm.ZERO)]
            for f in ('u', 'v', 'w', 'p', 'rho', 't'):
                api = 'masa_eval_grad_' + f
                args = coords + ([I] if dim > 1 else [])
                if not v.has_api(api, args):
                    continue
                exact_api = 'masa_eval_exact_' + f
                # is the gradient documented for this solution?  (fields the solution has an exact evaluator for)
                ex_paths = v.paths(exact_api, coords)
                provided = all(p['error'] is None and p['terminal'] is None and not any(e[0] == 'cout' for e in p['st'].events) for p in ex_paths)
                if not provided:
                    continue     # no exact field -> gradient not provided either (fail-safe behaviour is C15)
                exact = pde.merge_paths(ex_paths)
                try:
                    g = v.term(api, args)
                except ExecError as e_:
                    # a documented gradient that ends the process / fails although its solution is initialised and selected
                    chk.paths_clean('%s<%s>:%s:returns-for-the-selected-solution' % (name, scalar, api), [tm.TRUE], key='%s:%s:returns' % (name, api),
                                    sample=dict(obligation=api, outcome=str(e_)[:300]), replay=fatal_replay(chk, v, api, len(coords), dim))
                    continue
                paths = v.terms[(api, tuple(a.id for a in args))][1]
                if any(any(e[0] == 'cout' and isinstance(e[1], str) and 'MASA ERROR' in e[1] for e in p['st'].events) for p in paths) and dim == 1:
                    continue
                if dim == 1:
                    chk.identity('%s<%s>:%s' % (name, scalar, api), g, D(exact, X), A, key='%s:%s' % (name, api),
                                 replay=api_replay(chk, v, api, args, g, D(exact, X)))
                    continue
                for k, c in enumerate(coords):
                    ref = D(exact, c)
                    chk.identity('%s<%s>:%s:i=%d' % (name, scalar, api, k + 1), g, ref, A + [tm.cmp('eq', I, tm.iconst(k + 1))],
                                 key='%s:%s:i=%d' % (name, api, k + 1), replay=api_replay(chk, v, api, args, g, ref, k + 1))
                # out-of-range index: error value -1, independent of the point
                bad = tm.lor(tm.cmp('lt', I, tm.iconst(1)), tm.cmp('gt', I, tm.iconst(dim)))
                chk.identity('%s<%s>:%s:i-out-of-range' % (name, scalar, api), g, tm.const(-1), A + [bad],
                             key='%s:%s:i-out-of-range' % (name, api), witnesses=False,
                             replay=api_replay(chk, v, api, args, g, tm.const(-1), dim + 1))
                # the error path reports on stdout
                silent = [pde.pc_term(p['pc']) for p in paths
                          if p['ret'] is tm.const(-1) and not any(e[0] == 'cout' for e in p['st'].events)]
                chk.paths_clean('%s<%s>:%s:error-path-reports' % (name, scalar, api), silent, key='%s:%s:error-report' % (name, api))
    # power-law solution: gradient members over abstract jets (the jets themselves are proved in C03's powerlaw-jets family and again here)
    sys.path.insert(0, os.path.dirname(os.path.abspath(__file__)))
    import c03_powerlaw
    wn = chk.world(extra=('-fno-inline',))
    c03_powerlaw.build(chk, wn)
    c03_powerlaw.build(chk, wn, gradients=True)
    import c09
    c09.add_type_purity(chk, ['euler_1d', 'euler_2d', 'euler_3d', 'navierstokes_2d', 'navierstokes_3d', 'navierstokes_4d'], only='eval_g')
    chk.solve_all()


if __name__ == '__main__':
    framework.main('C07', body)
