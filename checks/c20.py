"""C20 Specialising parameters maps one catalogue solution onto another."""
import sys, os
sys.path.insert(0, os.path.join(os.path.dirname(os.path.abspath(__file__)), '..', 'mv'))
sys.path.insert(0, os.path.join(os.path.dirname(os.path.abspath(__file__)), '..'))
import terms as tm
import framework
import pde
from pde import X, Y, Z, TT


def zero_out(view, term, names):
    m = {view.P[n]: tm.ZERO for n in names if n in view.P}
    return tm.subst([term], m)[0]


def pair(chk, val, label, big, bmeth, bargs, small, smeth, sargs, zero, assume_syms=('L',), extra_assume=()):
    """big.bmeth(bargs) with parameters `zero` set to 0 == small.smeth(sargs); shared parameters are the same symbols
    (both views use the registered names), parameters existing on one side only stay free."""
    lb = big.term(bmeth, bargs)
    ls = small.term(smeth, sargs)
    spec = zero_out(big, lb, zero)
    A = [tm.cmp('ne', big.P[s], tm.ZERO) for s in assume_syms if s in big.P] + list(extra_assume)

    def replay(ob, model):
        # concrete replay: two handles of one process, shared parameters equal, specialised parameters zero
        import random, replay as rp
        from fractions import Fraction
        rng = random.Random(chk.seed + 11)
        names = sorted(set(big.P) | set(small.P))
        coords = sorted(set(a.p for a in bargs + sargs))
        steps = [('init', big.scalar, 'big', big.name), ('init', small.scalar, 'small', small.name)]
        envs = []
        for i in range(3):
            env = pde.rand_env(rng, names, coords)
            for z in zero:
                env[z] = Fraction(0)
            envs.append(env)
            steps.append(('raw', 'masa_select_mms<%s>("big");' % rp.SCALAR_CXX[big.scalar]))
            for n in big.P:
                steps.append(('set', big.scalar, n, env[n]))
            steps.append(('eval', big.scalar, pde.api_name(bmeth), [env[a.p] for a in bargs], 'b%d' % i))
            steps.append(('raw', 'masa_select_mms<%s>("small");' % rp.SCALAR_CXX[small.scalar]))
            for n in small.P:
                steps.append(('set', small.scalar, n, env[n]))
            steps.append(('eval', small.scalar, pde.api_name(smeth), [env[a.p] for a in sargs], 's%d' % i))
        src = rp.driver_source(steps)
        rc, out, err = chk.lib().run(src)
        res = rp.parse_results(out)
        for i in range(3):
            bv, sv = res.get('b%d' % i), res.get('s%d' % i)
            if bv is None or sv is None:
                continue
            e = {k: rp.mp.mpf(v.numerator) / rp.mp.mpf(v.denominator) for k, v in envs[i].items()}
            M = pde.magnitude(ls, e) + abs(sv)
            if abs(bv - sv) > rp.mp.mpf('1e-6') * M:
                path = chk.save_replay(ob, dict(obligation=ob.name, env={k: str(v) for k, v in envs[i].items()}, big=str(bv), small=str(sv), stdout=out), src)
                return dict(reproduced=True, path=path, detail='%s %s=%s vs %s %s=%s' % (big.name, bmeth, rp.mp.nstr(bv, 17), small.name, smeth, rp.mp.nstr(sv, 17)))
        return dict(reproduced=False, path=None, detail='no generic point separates the two handles')
    chk.identity('%s<%s>' % (label, big.scalar), spec, ls, A, key=label, replay=replay, family=label.split(':')[0])
    val.append((big, bmeth, bargs, lb))
    val.append((small, smeth, sargs, ls))
    PAIRS.append((label, big, bmeth, bargs, small, smeth, sargs, zero, ls))


PAIRS = []


def api_level_reductions(chk):
    """translator/API validation of the reductions (run on every execution, like pde.validate_terms): every pair is evaluated on the real
    library through TWO handles of one process -- select big; init small; select big; set; evaluate; select small; set; evaluate -- at one
    generic parameter set with the specialised parameters zero; the two API values must agree.  The identities above are about the
    evaluators' formulas; this run ties them to what a user of the registry observes."""
    import random, replay as rp
    from fractions import Fraction
    rng = random.Random(chk.seed + 29)
    steps, checks = [], []
    for k, (label, big, bmeth, bargs, small, smeth, sargs, zero, ls) in enumerate(PAIRS):
        if big.scalar != 'double' and chk.tier == 'quick':
            continue
        names = sorted(set(big.P) | set(small.P))
        coords = sorted(set(a.p for a in bargs + sargs))
        env = pde.rand_env(rng, names, coords)
        for z in zero:
            env[z] = Fraction(0)
        cb, cs = rp.SCALAR_CXX[big.scalar], rp.SCALAR_CXX[small.scalar]
        hb, hs = 'big%d' % k, 'small%d' % k
        steps.append(('init', big.scalar, hb, big.name))
        steps.append(('raw', 'masa_select_mms<%s>("%s");' % (cb, hb)))
        steps.append(('init', small.scalar, hs, small.name))
        steps.append(('raw', 'masa_select_mms<%s>("%s");' % (cb, hb)))
        for n in big.P:
            steps.append(('set', big.scalar, n, env[n]))
        steps.append(('eval', big.scalar, pde.api_name(bmeth), [env[a.p] for a in bargs], 'B%d' % k))
        steps.append(('raw', 'masa_select_mms<%s>("%s");' % (cs, hs)))
        for n in small.P:
            steps.append(('set', small.scalar, n, env[n]))
        steps.append(('eval', small.scalar, pde.api_name(smeth), [env[a.p] for a in sargs], 'S%d' % k))
        checks.append((k, label, big, bmeth, small, smeth, env, ls))
    if not checks:
        return
    src = rp.driver_source(steps)
    rc, out, err = chk.lib().run(src)
    res = rp.parse_results(out)
    done = 0
    for k, label, big, bmeth, small, smeth, env, ls in checks:
        bv, sv = res.get('B%d' % k), res.get('S%d' % k)
        if bv is None or sv is None or not rp.mp.isfinite(bv) or not rp.mp.isfinite(sv):
            continue
        done += 1
        e = {n_: rp.mp.mpf(v.numerator) / rp.mp.mpf(v.denominator) for n_, v in env.items()}
        try:
            M = pde.magnitude(ls, e) + abs(sv)
        except Exception:
            M = abs(sv) + abs(bv)
        if abs(bv - sv) > rp.mp.mpf('1e-6') * M:
            path = chk.save_replay('api-reduction:' + label, dict(case=label, big=str(bv), small=str(sv), env={n_: str(v) for n_, v in env.items()}), src)
            chk.report_violation('api-reduction:' + label, path, 'through two handles (select big; init small; select big; ...) %s %s = %s but %s %s = %s' % (
                big.name, bmeth, rp.mp.nstr(bv, 15), small.name, smeth, rp.mp.nstr(sv, 15)))
    chk.extra_cov['api_level_reductions_evaluated'] = done
    if done != len(checks):
        chk.notes.append('api-level reductions: %d of %d pairs produced finite values' % (done, len(checks)))


def body(chk):
    w = chk.world()
    chk.assumptions += ['real-arithmetic model of FP (formula layer)', 'sin/cos abstracted to points on the unit circle (sound)',
                        'two-handle isolation itself is C10/C12; here both sides are library terms over shared parameter symbols']
    chk.bounds = dict(values='unbounded', loops='none')
    val = []
    for scalar in ('double', 'long double'):
        V = lambda n: pde.SolView(chk, w, n, scalar)
        e1, e2, e3 = V('euler_1d'), V('euler_2d'), V('euler_3d')
        n2, n3 = V('navierstokes_2d_compressible'), V('navierstokes_3d_compressible')
        t1, t2, t3 = V('euler_transient_1d'), V('euler_transient_2d'), V('euler_transient_3d')
        zamp = ['u_z', 'v_z', 'w_0', 'w_x', 'w_y', 'w_z', 'rho_z', 'p_z']
        # 3D -> 2D (every 2-D source, at arbitrary z)
        for big, small, tag in ((e3, e2, 'euler'), (n3, n2, 'cns')):
            rpos = [tm.cmp('gt', small.term('eval_exact_rho', [X, Y]), tm.ZERO)]
            for eq in ('rho', 'rho_u', 'rho_v', 'rho_e'):
                pair(chk, val, '3d-to-2d:%s:eval_q_%s' % (tag, eq), big, 'eval_q_' + eq, [X, Y, Z], small, 'eval_q_' + eq, [X, Y], zamp,
                     extra_assume=rpos + [tm.cmp('ne', big.P['Gamma'], tm.ONE)] + ([tm.cmp('ne', big.P['R'], tm.ZERO)] if 'R' in big.P else []))
        # cns with mu = k = 0 -> euler
        for big, small, args, eqs in ((n2, e2, [X, Y], ('rho', 'rho_u', 'rho_v', 'rho_e')), (n3, e3, [X, Y, Z], ('rho', 'rho_u', 'rho_v', 'rho_w', 'rho_e'))):
            rpos = [tm.cmp('gt', small.term('eval_exact_rho', args), tm.ZERO), tm.cmp('ne', big.P['Gamma'], tm.ONE), tm.cmp('ne', big.P['R'], tm.ZERO)]
            for eq in eqs:
                pair(chk, val, 'inviscid-limit:%s:eval_q_%s' % (big.name, eq), big, 'eval_q_' + eq, args, small, 'eval_q_' + eq, args, ['mu', 'k'], extra_assume=rpos)
        # transient euler with temporal amplitudes 0 -> steady euler
        for big, small, sargs in ((t1, e1, [X]), (t2, e2, [X, Y]), (t3, e3, [X, Y, Z])):
            tz = [n for n in big.P if n.endswith('_t') and not n.startswith('a_')]
            rpos = [tm.cmp('gt', small.term('eval_exact_rho', sargs), tm.ZERO), tm.cmp('ne', big.P['Gamma'], tm.ONE)]
            names = {'rho': 'rho', 'rho_u': 'rho_u', 'rho_v': 'rho_v', 'rho_w': 'rho_w', 'rho_e': 'rho_e'}
            for eq in ['rho', 'rho_u', 'rho_v', 'rho_w', 'rho_e'][:len(sargs) + 1] + ['rho_e']:
                bm = 'eval_q_' + eq
                if not big.has(bm, len(sargs) + 1):
                    bm = {'rho_u': 'eval_q_u', 'rho_v': 'eval_q_v', 'rho_w': 'eval_q_w', 'rho_e': 'eval_q_e'}[eq]
                pair(chk, val, 'steady-limit:%s:%s' % (big.name, bm), big, bm, sargs + [TT], small, 'eval_q_' + eq, sargs, tz, extra_assume=rpos)
        # heat: unsteady with A_t=B_t=C_t=D_t=0 -> steady; variable with k_1=k_2=cp_1=cp_2=0 -> constant
        for dim, coords in ((1, [X]), (2, [X, Y]), (3, [X, Y, Z])):
            for var in ('const', 'var'):
                big, small = V('heateq_%dd_unsteady_%s' % (dim, var)), V('heateq_%dd_steady_%s' % (dim, var))
                pair(chk, val, 'heat-steady-limit:%dd_%s' % (dim, var), big, 'eval_q_t', coords + [TT], small, 'eval_q_t', coords, ['A_t', 'B_t', 'C_t', 'D_t'], assume_syms=())
            for st in ('steady', 'unsteady'):
                big, small = V('heateq_%dd_%s_var' % (dim, st)), V('heateq_%dd_%s_const' % (dim, st))
                a = coords + ([TT] if st == 'unsteady' else [])
                pair(chk, val, 'heat-const-limit:%dd_%s' % (dim, st), big, 'eval_q_t', a, small, 'eval_q_t', a, ['k_1', 'k_2', 'cp_1', 'cp_2'], assume_syms=())
    import c09
    c09.add_type_purity(chk, ['heateq_', 'euler_1d', 'euler_2d', 'euler_3d', 'euler_transient_', 'navierstokes_2d', 'navierstokes_3d'], only='eval_q')
    chk.solve_all()
    # de-duplicate validation items
    seen, items = set(), []
    for it in val:
        k = (id(it[0]), it[1], len(it[2]))
        if k not in seen:
            seen.add(k)
            items.append(it)
    pde.validate_terms(chk, items, npoints=1 if chk.tier == 'quick' else 3)
    api_level_reductions(chk)


if __name__ == '__main__':
    framework.main('C20', body)
