"""C15 Evaluators a solution does not provide fail safe with the -1.33 sentinel; API templates reach the
virtual the naming rule prescribes (forwarding)."""
import sys, os, json
sys.path.insert(0, os.path.join(os.path.dirname(os.path.abspath(__file__)), '..', 'mv'))
sys.path.insert(0, os.path.join(os.path.dirname(os.path.abspath(__file__)), '..'))
import terms as tm
from terms import T
import framework
import pde
import sol as S
from exec import Ptr, FnPtr, NULL, ExecError
from spec import api as A

HERE = os.path.dirname(os.path.abspath(__file__))
CAPS = json.load(open(os.path.join(HERE, '..', 'spec', 'capabilities.json')))
SENTINEL = tm.const(tm.Fraction(-133, 100)) if hasattr(tm, 'Fraction') else None
from fractions import Fraction
SENTINEL = tm.const(Fraction(-133, 100))


def api_list(w, scalar):
    out = []
    for n in sorted(w.prog.functions):
        d = w.models.demangled(n)
        p = A.parse_api(d, scalar)
        if p:
            out.append((n, p[0], p[1]))
    return out


def sym_args(sig):
    args = []
    for k, p in enumerate(sig.split(',') if sig else []):
        if p == 'S':
            args.append(tm.sym('arg%d' % k))
        elif p == 'int':
            args.append(tm.sym('iarg%d' % k, 'I'))
        elif p == 'F':
            args.append(tm.sym('callback%d' % k, 'P'))
        else:
            raise ExecError('unknown API parameter type %s' % p)
    return args


def callback_hook(ex, cv, args, ins):
    return tm.uf('call:' + cv.p, *[a if isinstance(a, T) else tm.iconst(a) for a in args])


def replay_stub(chk, scalar, solname, api, sig, why):
    def replay(ob, model):
        import replay as rp
        cxx = rp.SCALAR_CXX[scalar]
        decl = ''
        parts = sig.split(',') if sig else []
        # an integer argument (direction index) is tried with the solver's value and with valid and invalid indices: the stub's answer may not depend on it
        ivals = [1]
        if 'int' in parts:
            ivals = []
            for n_, v_ in sorted((model or {}).items()):
                if n_.startswith('iarg') and v_ is not None and abs(v_) < 10 ** 6 and int(v_) not in ivals:
                    ivals.append(int(v_))
            ivals += [x for x in (1, 2, 3, 0, -1, 4, 7) if x not in ivals]
        # every call is repeated: an answer that depends on how often the stub was reached before (a warn-once flag, a message counter) is a
        # path of the symbolic execution whose remembered state no single call reproduces.  The repetition count covers the integer values of
        # the solver's model (the remembered counter on the violating path) and at least 300 calls.
        reps = 300
        for n_, v_ in (model or {}).items():
            try:
                if v_ is not None and 1 < abs(v_) < 5000 and not n_.startswith('iarg'):
                    reps = max(reps, int(abs(v_)) + 2)
            except Exception:
                pass
        calls = []
        for iv in ivals:
            args = []
            for k, p in enumerate(parts):
                if p == 'S':
                    args.append('(%s)0.37' % cxx)
                elif p == 'int':
                    args.append(str(iv))
                else:
                    decl = '%s cbk(%s t){return t;}\n' % (cxx, cxx)
                    args.append('cbk')
            calls.append(' for(int rep = 0; rep < %d; rep++) { %s v = %s<%s>(%s); printf("\\nR v %%.25Lg\\n",(long double)v); printf("R is_sentinel %%d\\n", v == (%s)(-1.33)); }' % (reps, cxx, api, cxx, ','.join(args), cxx))
        src = ('#include <masa.h>\n#include <cstdio>\nusing namespace MASA;\n%sint main(){ masa_init<%s>("h","%s");\n%s\n return 0;}\n') % (decl, cxx, solname, '\n'.join(calls))
        rc, out, err = chk.lib().run(src)
        bad = (out.count('R is_sentinel 1') != len(calls) * reps) or (out.count('MASA ERROR') < len(calls) * reps) or rc != 0
        if bad:
            path = chk.save_replay(ob, dict(obligation=ob.name, solution=solname, api=api, sig=sig, integer_arguments_tried=ivals, repetitions=reps, stdout=out[-2000:], rc=rc, why=why), src)
            return dict(reproduced=True, path=path, detail='%s<%s>(%s) on %s: %s' % (api, scalar, sig, solname, why))
        return dict(reproduced=False, path=None, detail='real library returns the sentinel and prints MASA ERROR')
    return replay


def body(chk):
    w = chk.world()
    w.models.callback_hook = callback_hook
    chk.assumptions += ['entry through MASA::masa_eval_*<Scalar> with the registry pointing at the catalogue object built by the real constructor (state constructed directly; masa_init/select are C12)',
                        'documented capability set = spec/capabilities.json (frozen)', 'arguments arbitrary (symbolic), user callbacks uninterpreted']
    chk.bounds = dict(arguments='unbounded symbolic', pairs='every (catalogue solution, API template) pair not in the capability table; exhaustive')
    npairs = 0
    for scalar in ('double', 'long double'):
        apis = api_list(w, scalar)
        st0, sols, _ = w.catalogue(scalar)
        # ---- forwarding: each API template dispatches to the slot whose virtual the naming rule prescribes
        base_vt = '_ZTVN4MASA21manufactured_solutionI%sEE' % S.SC[scalar]
        anysol = [s for s in sols if s['name'] == 'euler_1d'][0]
        slots = w.vtable_slots(dict(vtable=base_vt, vtoff=anysol['vtoff'], scalar=scalar))
        slot_virtual = {}
        for k, n in enumerate(slots):
            if n:
                pv = A.parse_virtual(w.models.demangled(n), scalar)
                if pv:
                    slot_virtual[k] = (pv[1], pv[2])
        st = w.base.clone()
        w.ex.st = st
        fake_vt = st.new_region('global', 8 * len(slots), 'fake-vtable')
        fake_vt.fresh = False
        for k in range(len(slots)):
            st.mem[(fake_vt.rid, 8 * k)] = (8, FnPtr('__slot_%d' % k))
            w.ex.opaque['__slot_%d' % k] = (lambda ex, args, inst, k=k: tm.uf('vslot:%d' % k, *[a if isinstance(a, T) else tm.sym('ptr:%r' % (a,), 'P') for a in args[1:]]))
        obj = st.new_region('obj', 4096, 'fake-solution')
        st.mem[(obj.rid, 0)] = (8, Ptr(fake_vt.rid, 0))
        reg = [n for n in st.gmap if ('masa_master_double' if scalar == 'double' else 'masa_master_longdouble') in n][0]
        st.mem[(st.gmap[reg], 0)] = (8, Ptr(obj.rid, 0))
        for fn, api, sig in apis:
            args = sym_args(sig)
            want = A.virtual_of(api)
            paths = w.ex.explore(st, lambda ex: ex.call(fn, list(args)))
            chk.functions.add(fn)
            bad = []
            for p in paths:
                r = p['ret']
                ok = (p['error'] is None and p['terminal'] is None and isinstance(r, T) and r.op == 'uf' and r.p.startswith('vslot:'))
                if ok:
                    k = int(r.p.split(':')[1])
                    ok = slot_virtual.get(k) == (want, sig) and len(r.a) == len(args) and all(x is y for x, y in zip(r.a, args))
                if not ok:
                    bad.append(pde.pc_term(p['pc']))
                    why = 'API %s<%s>(%s) dispatches to %s instead of %s(%s) with the arguments in order' % (
                        api, scalar, sig, slot_virtual.get(int(r.p.split(':')[1])) if isinstance(r, T) and r.op == 'uf' else (p['error'] or r), want, sig)
            chk.paths_clean('forwarding:%s<%s>(%s)' % (api, scalar, sig), bad, key='forwarding:%s(%s)' % (api, sig), family='forwarding',
                            sample=dict(obligation='forwarding:%s(%s)' % (api, sig), expected_virtual='%s(%s)' % (want, sig), paths=len(paths)),
                            replay=(lambda ob, model, api=api, sig=sig, why=(why if bad else ''), scalar=scalar: forwarding_replay(chk, scalar, api, sig, why)))
        for k in range(len(slots)):
            w.ex.opaque.pop('__slot_%d' % k, None)
        # ---- stubs: every (solution, API) pair outside the capability table
        for s in sols:
            name = s['name']
            caps = set(CAPS.get(name, []))
            v = pde.RegView(chk, w, name, scalar)
            for fn, api, sig in apis:
                want = '%s(%s)' % (A.virtual_of(api), sig)
                if want in caps:
                    continue
                npairs += 1
                args = sym_args(sig)
                paths = w.ex.explore(v.st, lambda ex: ex.call(fn, list(args)))
                bad = []
                why = ''
                for p in paths:
                    ev = p['st'].events
                    couts = [e[1] for e in ev if e[0] == 'cout' and isinstance(e[1], str)]
                    okret = p['ret'] is SENTINEL
                    okmsg = any(('MASA ERROR' in c or 'SMASA ERROR' in c) for c in couts)
                    okterm = p['terminal'] is None and p['error'] is None
                    stores = [wr for wr in p['st'].writes[len(v.st.writes):] if p['st'].regions[wr[0]].kind not in ('alloca',)]
                    if not (okret and okmsg and okterm and not stores):
                        bad.append(pde.pc_term(p['pc']))
                        why = 'returns %s, message=%s, terminal=%s, stores=%d' % (tm.show(p['ret'], 2) if isinstance(p['ret'], T) else p['ret'], okmsg, p['terminal'] or p['error'], len(stores))
                chk.paths_clean('stub:%s<%s>:%s(%s)' % (name, scalar, api, sig), bad, key='stub:%s:%s(%s)' % (name, api, sig), family='stub',
                                sample=dict(obligation='stub:%s:%s(%s)' % (name, api, sig), paths=len(paths), expected='ret == -1.33, one MASA ERROR line, no store, no exit'),
                                replay=replay_stub(chk, scalar, name, api, sig, why))
    chk.extra_cov['pairs_checked'] = npairs
    chk.extra_cov['exhaustive'] = True
    chk.solve_all()


def forwarding_replay(chk, scalar, api, sig, why):
    # concrete witness: a solution that implements exactly one of the two virtuals involved shows the mis-wiring
    import replay as rp
    cxx = rp.SCALAR_CXX[scalar]
    want = A.virtual_of(api)
    src = None
    for name, caps in CAPS.items():
        if '%s(%s)' % (want, sig) not in caps:
            args = ','.join('(%s)0.37' % cxx if p == 'S' else '1' for p in sig.split(',')) if sig else ''
            if 'F' in sig:
                continue
            src = ('#include <masa.h>\n#include <cstdio>\nusing namespace MASA;\nint main(){ masa_init<%s>("h","%s"); %s v = %s<%s>(%s);\n'
                   ' printf("\\nR is_sentinel %%d\\n", v == (%s)(-1.33)); return 0;}\n') % (cxx, name, cxx, api, cxx, args, cxx)
            rc, out, err = chk.lib().run(src)
            if 'R is_sentinel 0' in out:
                path = chk.save_replay('forwarding:%s(%s)' % (api, sig), dict(api=api, sig=sig, solution=name, stdout=out[-1500:], why=why), src)
                return dict(reproduced=True, path=path, detail='%s; witness: %s on %s does not return the sentinel although %s(%s) is not implemented' % (why, api, name, want, sig))
    return dict(reproduced=False, path=None, detail=why)


if __name__ == '__main__':
    framework.main('C15', body)
