"""C19 No memory errors, undefined behaviour or leaks for any API history (Engine A memory model)."""
import sys, os, json, re
sys.path.insert(0, os.path.join(os.path.dirname(os.path.abspath(__file__)), '..', 'mv'))
sys.path.insert(0, os.path.join(os.path.dirname(os.path.abspath(__file__)), '..'))
import terms as tm
from terms import T
import framework
import pde
import sol as S
import registry as R
import models
from exec import Ptr, NULL, ExecError, UnwindBound, pc_term
from spec import api as A
import c15
import c16
from c12 import H

BAD_EVENTS = ('uninit-use', 'dangling', 'oob', 'int-ub', 'double-free', 'bad-free', 'null-deref', 'store-to-const')
HERE = os.path.dirname(os.path.abspath(__file__))
CAPS = json.load(open(os.path.join(HERE, '..', 'spec', 'capabilities.json')))


_LIBS = {}


def bad_events(p, n0=0):
    return [e for e in p['st'].events[n0:] if e[0] in BAD_EVENTS]


def vg_replay(chk, lines, why, scalar='double', leak=False, lang='c++', alt_lines=None):
    """replay under valgrind memcheck (uninitialised use, invalid access, leaks)"""
    def replay(ob, model):
        import replay as rp
        cxx = rp.SCALAR_CXX[scalar]
        if lang == 'c':
            src = '#include <masa.h>\n#include <stdio.h>\n#include <string.h>\nint main(){\n%s\n return 0;}\n' % '\n'.join(lines)
        else:
            src = '#include <masa.h>\n#include <cstdio>\n#include <vector>\n#include <string>\nusing namespace MASA;\ntypedef %s Scalar;\nint main(){\n%s\n return 0;}\n' % (cxx, '\n'.join(lines))
        args = ['valgrind', '-q', '--error-exitcode=97'] + (['--leak-check=full', '--errors-for-leak-kinds=definite,indirect'] if leak else [])
        rc, out, err = chk.lib().run(src, lang=lang, wrapper=args, timeout=600)
        if rc == 97 or 'Invalid' in err or 'uninitialised' in err or 'definitely lost' in err:
            path = chk.save_replay(ob, dict(obligation=ob.name, why=why, valgrind=err[-3000:], rc=rc), src)
            return dict(reproduced=True, path=path, detail='%s; valgrind: %s' % (why, (err.strip().split('\n') or [''])[0][:200]))
        if alt_lines is not None:
            # an index beyond size() but inside the capacity is invisible to valgrind: the same history (with the vector lengths of the
            # symbolic state) on a build with the libstdc++ container assertions enabled aborts at the out-of-range operator[]
            from replay import Lib
            src2 = '#include <masa.h>\n#include <cstdio>\n#include <vector>\n#include <string>\nusing namespace MASA;\ntypedef %s Scalar;\nint main(){\n%s\n return 0;}\n' % (cxx, '\n'.join(alt_lines))
            if 'assert-lib' not in _LIBS:
                _LIBS['assert-lib'] = Lib(chk.scratch, extra=('-D_GLIBCXX_ASSERTIONS',))
            rc2, out2, err2 = _LIBS['assert-lib'].run(src2, timeout=300)
            if rc2 not in (0, 1) and ('Assertion' in err2 or '__n < this->size()' in err2 or rc2 < 0 or rc2 == 134):
                path = chk.save_replay(ob, dict(obligation=ob.name, why=why, build='-D_GLIBCXX_ASSERTIONS', stderr=err2[-1500:], rc=rc2), src2)
                return dict(reproduced=True, path=path, detail='%s; container assertion: %s' % (why, (err2.strip().split('\n') or [''])[-1][:200]))
        return dict(reproduced=False, path=None, detail='valgrind clean on the replay script (model-only finding: %s)' % why)
    return replay


def scalars_6c(chk):
    return ('double',) if chk.tier == 'quick' else ('double', 'long double')


def body(chk):
    w = chk.world()
    w.models.callback_hook = c15.callback_hook
    nmax = 4 if chk.tier == 'quick' else 8
    chk.assumptions += ['memory behaviour inside libstdc++ containers/streams is trusted (contract models); vector reallocation does not invalidate references in the model',
                        'allocation never fails', 'UB classes: uninitialised read reaching arithmetic/branch/address, dead-region access, container index out of range, C array out of range, nsw overflow / division by zero / shift range in non-FP code, double free',
                        'one API step from a symbolic registry state (K entries, symbolic handles) as in C12']
    K = 2
    chk.bounds = dict(registry_entries=K, c_array_length='0..%d' % nmax, evaluator_paths='<= 48 per evaluator (skipped with a note beyond)')
    skipped = 0
    for scalar in ('double', 'long double'):
        ex = w.ex
        fs = 8 if scalar == 'double' else 16
        # ---- 1. static initialisation and catalogue construction
        st, sols, ev = w.catalogue(scalar)
        bad = [e for e in ev if e[0] in BAD_EVENTS]
        chk.paths_clean('construct<%s>:get_list_mms-and-all-constructors:no-memory-event' % scalar, [tm.TRUE] if bad else [], key='construct', family='construct',
                        sample=dict(obligation='constructors', events=[str(e)[:200] for e in bad[:3]], solutions=len(sols)),
                        replay=vg_replay(chk, ['masa_init<Scalar>("a","cp_normal"); std::vector<Scalar> v; masa_get_vec<Scalar>("vec_data",v); masa_init<Scalar>("b","radiation_integrated_intensity"); masa_sanity_check<Scalar>(); masa_display_vec<Scalar>();'],
                                         'constructor/registration events %r' % (bad[:2],), scalar))
        # ---- 2. masa_init from a symbolic registry state: memory events and ownership
        st, handles, objs = R.build(w, scalar, ['euler_2d', 'heateq_1d_unsteady_var'][:K], symbolic=True, select=0)
        finit = S.api_fn(w, 'masa_init', scalar, 'std::string, std::string')
        names = [s['name'] for s in sols]
        sel = names if chk.tier == 'thorough' else ['masa_test_function', 'axisymmetric_navierstokes_compressible', 'cp_normal', 'heateq_3d_steady_const', 'navierstokes_4d_compressible_powerlaw', 'axi_cns_transient']
        for n in sel:
            S.install_api_models(w)
            paths = ex.explore(st, lambda ex: ex.call(finit, [S.new_string(ex, H), S.new_string(ex, n)]), 16)
            bad_ev, bad_own = [], []
            why = ''
            for p in paths:
                if p['error'] is not None:
                    bad_ev.append(pc_term(p['pc']))
                    why = str(p['error'])
                    continue
                if bad_events(p):
                    bad_ev.append(pc_term(p['pc']))
                    why = str(bad_events(p)[:2])
                if p['terminal'] is not None:
                    continue
                new_live = set(p['st'].live_heap) - set(st.live_heap)
                gone = set(st.live_heap) - set(p['st'].live_heap)
                ptr1, ents1 = R.snapshot(w, p['st'], scalar)
                replaced = [o for o in objs if o not in ents1.values()]
                ok = new_live == {ptr1.rid} and gone == set(o.rid for o in replaced)
                if not ok:
                    bad_own.append(pc_term(p['pc']))
                    why = 'after masa_init: %d allocation(s) still live besides the mapped instance; replaced instance freed=%s' % (len(new_live - {ptr1.rid}), set(o.rid for o in replaced) <= gone)
            chk.paths_clean('init<%s>:%s:no-memory-event' % (scalar, n), bad_ev, key='init:%s:events' % n, family='init-events',
                            replay=vg_replay(chk, ['masa_init<Scalar>("a","%s");' % n], why, scalar))
            chk.paths_clean('init<%s>:%s:allocations-balance-to-one-live-instance-per-handle' % (scalar, n), bad_own, key='init:ownership', family='ownership',
                            sample=dict(obligation='masa_init(H,%s) ownership' % n, paths=len(paths), why=why),
                            replay=vg_replay(chk, ['masa_init<Scalar>("a","%s"); masa_init<Scalar>("a","%s"); masa_init<Scalar>("b","euler_1d");' % (n, n),
                                              # ... and a re-initialisation while ANOTHER handle is selected, then use of that other handle (the instance released must be the one mapped to the handle, not the selected one)
                                              'masa_init<Scalar>("a","%s"); masa_select_mms<Scalar>("b"); masa_init_param<Scalar>(); masa_sanity_check<Scalar>();' % n], why, scalar, leak=True))
        # ---- 2b. the failing calls (unknown solution name on a fresh or an existing handle, unknown handle): when the fatal error is raised the
        #          registry may not hold a pointer to a released instance (it is dereferenced by every later call in the exception build), and
        #          the static destructor that exit(1) runs next must release every instance exactly once
        dtors = [n for n in w.prog.functions if re.search(r'MasterMS<%s>::~MasterMS\(\)' % re.escape(scalar), w.models.demangled(n))]
        fsel = S.api_fn(w, 'masa_select_mms', scalar, 'std::string')
        for label, thunk, script in (('masa_init(H,unknown-solution)', lambda ex: ex.call(finit, [S.new_string(ex, H), S.new_string(ex, 'no_such_solution')]),
                                      ['masa_init<Scalar>("a","euler_1d"); masa_init<Scalar>("b","heateq_1d_unsteady_var"); masa_init<Scalar>("a","no_such_solution");']),
                                     ('masa_select_mms(H)', lambda ex: ex.call(fsel, [S.new_string(ex, H)]),
                                      ['masa_init<Scalar>("a","euler_1d"); masa_init<Scalar>("b","heateq_1d_unsteady_var"); masa_select_mms<Scalar>("ghost");'])):
            S.install_api_models(w)
            paths = ex.explore(st, thunk, 16)
            bad, why, nterm = [], '', 0
            for p in paths:
                if p['error'] is not None or bad_events(p):
                    bad.append(pc_term(p['pc']))
                    why = str(p['error'] or bad_events(p)[:2])
                    continue
                if p['terminal'] is None:
                    continue
                nterm += 1
                ptr1, ents1 = R.snapshot(w, p['st'], scalar)
                dead = [k for k, o in ents1.items() if isinstance(o, Ptr) and o.rid not in p['st'].live_heap]
                if isinstance(ptr1, Ptr) and ptr1 is not NULL and ptr1.rid not in p['st'].live_heap and ptr1.rid in [o.rid for o in objs]:
                    dead.append('<selected>')
                if dead:
                    bad.append(pc_term(p['pc']))
                    why = 'at the fatal error the registry still maps %r to released instance(s)' % (dead,)
                    continue
                if dtors:
                    rid = R.registry_global(p['st'], scalar)
                    n0 = len(p['st'].events)
                    for q in ex.explore(p['st'], lambda ex: ex.call(dtors[0], [Ptr(rid, 0)]), 16):
                        if q['error'] is not None or bad_events(q, n0) or any(o.rid in q['st'].live_heap for o in ents1.values() if isinstance(o, Ptr)):
                            bad.append(tm.land(pc_term(p['pc']), pc_term(q['pc'])))
                            why = 'static destructor after the fatal exit: %s' % str(q['error'] or bad_events(q, n0)[:2] or 'instance not released')
            if nterm == 0:
                bad.append(tm.TRUE)
                why = 'no path of %s reaches the fatal error' % label
            chk.paths_clean('fatal<%s>:%s:registry-holds-only-live-instances-and-exit-releases-each-once' % (scalar, label), bad, key='fatal:%s' % label.split('(')[0], family='ownership',
                            sample=dict(obligation=label, paths=len(paths), fatal_paths=nterm, why=why), replay=vg_replay(chk, script, why, scalar, leak=True))
        # ---- 2c. every solution-dependent API function called BEFORE any masa_init: the fatal error is reached without touching a null or
        #          uninitialised object (the discipline itself -- message, status -- is C16)
        for fn, api, sig in c16.api_all(w, scalar):
            if api in c16.NOT_SOLUTION_DEPENDENT:
                continue
            try:
                paths = ex.explore(w.base, lambda ex, fn=fn, sig=sig: ex.call(fn, c16.harness_args(w, ex, sig, scalar)), 16)
            except ExecError as e:
                chk.infra.append('%s before masa_init: %s' % (api, e))
                continue
            bad = [pc_term(p['pc']) for p in paths if bad_events(p) or (p['error'] is not None and not isinstance(p['error'], UnwindBound))]
            why = ''
            for p in paths:
                if bad_events(p) or p['error'] is not None:
                    why = str(bad_events(p)[:1] or p['error'])[:200]
            simple = not any(x in sig for x in ('std::vector', '(*)', 'void**', 'std::string*', 'int*'))
            a = ','.join('"x"' if q.strip() == 'std::string' else ('1' if q.strip() == 'int' else '(Scalar)0.5') for q in c16.split_sig(sig))
            pre = {'std::string*': 'std::string s_; %s<Scalar>(&s_);', 'int*': 'int i_=0; %s<Scalar>(&i_);'}.get(sig.strip())
            script = ['%s<Scalar>(%s);' % (api, a)] if simple else ([pre % api] if pre else None)
            chk.paths_clean('before-init<%s>:%s(%s):no-memory-event' % (scalar, api, sig), bad, key='before-init:%s' % api, family='before-init-events',
                            sample=dict(obligation='%s before masa_init' % api, paths=len(paths), why=why),
                            replay=vg_replay(chk, script, '%s before masa_init: %s' % (api, why), scalar) if script else None)
        # ---- 3. printid balanced; list/select clean
        for api, sig in (('masa_printid', ''), ('masa_list_mms', ''), ('masa_display_param', ''), ('masa_display_vec', ''), ('masa_test_poly', '')):
            try:
                fn = S.api_fn(w, api, scalar, sig)
            except KeyError:
                continue
            paths = ex.explore(st, lambda ex: ex.call(fn, []), 16)
            bad = [pc_term(p['pc']) for p in paths if p['error'] is not None or bad_events(p) or (p['terminal'] is None and set(p['st'].live_heap) != set(st.live_heap))]
            chk.paths_clean('%s<%s>:no-memory-event-and-allocations-balanced' % (api, scalar), bad, key='%s:memory' % api, family='api-events',
                            replay=vg_replay(chk, ['masa_init<Scalar>("a","euler_1d"); %s<Scalar>();' % api], 'memory event in %s' % api, scalar, leak=True))
        # ---- 4. ~MasterMS deletes every mapped object
        dtors = [n for n in w.prog.functions if re.search(r'MasterMS<%s>::~MasterMS\(\)' % re.escape(scalar), w.models.demangled(n))]
        if dtors:
            rid = R.registry_global(st, scalar)
            paths = ex.explore(st, lambda ex: ex.call(dtors[0], [Ptr(rid, 0)]), 16)
            bad = [pc_term(p['pc']) for p in paths if p['error'] is not None or bad_events(p) or any(o.rid in p['st'].live_heap for o in objs)]
            chk.paths_clean('registry-destructor<%s>:releases-every-mapped-instance' % scalar, bad, key='registry-destructor', family='ownership',
                            replay=vg_replay(chk, ['masa_init<Scalar>("a","euler_1d"); masa_init<Scalar>("b","euler_2d");'], 'instances not released at exit', scalar, leak=True))
        else:
            chk.notes.append('MasterMS<%s> destructor not found as a separate function (inlined into the static-destructor stub)' % scalar)
        # ---- 5. every documented evaluator of every class: no uninitialised cache read, no index error (symbolic arguments and parameters)
        apis = c15.api_list(w, scalar)
        for s in sols:
            name = s['name']
            v = pde.RegView(chk, w, name, scalar)
            # the cache members keep whatever the constructor left (undef if never written): reading one before writing it is an uninitialised read
            stv = w.find(scalar, name)[0].clone()
            stv.mem[(v.reg_rid, 0)] = (8, s['ptr'])
            w.symbolize(stv, s)
            stv.events, stv.writes = [], []
            for cap in CAPS.get(name, []):
                meth, sig = cap[:-1].split('(')
                cands = [(fn_, api, sg) for fn_, api, sg in apis if A.virtual_of(api) == meth and sg == sig]
                if not cands:
                    continue
                fn_, api, sg = cands[0]
                args = c15.sym_args(sg)
                try:
                    paths = ex.explore(stv, lambda ex: ex.call(fn_, list(args)), 48)
                except UnwindBound:
                    skipped += 1
                    continue
                bad = [pc_term(p['pc']) for p in paths if bad_events(p) or (p['error'] is not None and not isinstance(p['error'], UnwindBound))]
                why = ''
                for p in paths:
                    if bad_events(p) or p['error'] is not None:
                        why = str(bad_events(p)[:1] or p['error'])[:300]
                a = ','.join('(Scalar)0.37' if q == 'S' else '2' for q in sg.split(',')) if sg and 'F' not in sg else None
                chk.paths_clean('evaluator<%s>:%s:%s(%s):no-memory-event' % (scalar, name, api, sg), bad, key='evaluator:%s:%s' % (name, api), family='evaluator-events',
                                sample=dict(obligation='evaluator %s %s' % (name, api), paths=len(paths), why=why),
                                replay=vg_replay(chk, ['masa_init<Scalar>("a","%s"); volatile Scalar r = %s<Scalar>(%s);' % (name, api, a)], why, scalar) if a is not None else None)
        # ---- 6. parameter-store operations on vector solutions with changing length
        for name in ('cp_normal', 'radiation_integrated_intensity'):
            v = pde.RegView(chk, w, name, scalar)
            fsv = S.api_fn(w, 'masa_set_vec', scalar, 'std::string, std::vector<%s>&' % scalar)
            fgv = S.api_fn(w, 'masa_get_vec', scalar, 'std::string, std::vector<%s>&' % scalar)
            for vname in sorted(v.sol['vecs']):
                for n in range(0, nmax + 1):
                    def thunk(ex):
                        a = ex.st.new_region('alloca', 8, 'harness:vec')
                        models.new_vec(ex, Ptr(a.rid, 0), fs, n, lambda i: tm.sym('e%d' % i))
                        ex.call(fsv, [S.new_string(ex, vname), Ptr(a.rid, 0)])
                        o = ex.st.new_region('alloca', 8, 'harness:out')
                        models.new_vec(ex, Ptr(o.rid, 0), fs)
                        ex.call(fgv, [S.new_string(ex, vname), Ptr(o.rid, 0)])
                        # evaluate with the new vector where the solution reads it
                        return None
                    paths = ex.explore(v.st, thunk, 8)
                    bad = [pc_term(p['pc']) for p in paths if bad_events(p) or p['error'] is not None]
                    chk.paths_clean('vector<%s>:%s:%s:n=%d:no-memory-event' % (scalar, name, vname, n), bad, key='vector:%s' % name, family='vector-events',
                                    replay=vg_replay(chk, ['masa_init<Scalar>("a","%s"); std::vector<Scalar> a(%d,(Scalar)0.5), o; masa_set_vec<Scalar>("%s",a); masa_get_vec<Scalar>("%s",o);' % (name, n, vname, vname)],
                                                     'vector parameter of length %d' % n, scalar))
    # ---- 6c. operations with a name the solution has NOT registered (a typo), followed by every observer of the store: the refused call
    #          must leave nothing behind that a later display/sanity/get call reads through (e.g. an index-0 entry -> the constructor's dead local)
    for scalar in scalars_6c(chk):
        fs = 8 if scalar == 'double' else 16
        fsv = S.api_fn(w, 'masa_set_vec', scalar, 'std::string, std::vector<%s>&' % scalar)
        fgv = S.api_fn(w, 'masa_get_vec', scalar, 'std::string, std::vector<%s>&' % scalar)
        fsp = S.api_fn(w, 'masa_set_param', scalar, 'std::string, %s' % scalar)
        fgp = S.api_fn(w, 'masa_get_param', scalar, 'std::string')
        obs = [S.api_fn(w, n_, scalar, '') for n_ in ('masa_display_vec', 'masa_display_param', 'masa_sanity_check', 'masa_purge_default_param', 'masa_init_param')]
        for name in ('cp_normal', 'radiation_integrated_intensity', 'euler_1d'):
            v = pde.RegView(chk, w, name, scalar)
            for first in ('set_vec', 'get_vec', 'set_param', 'get_param'):
                def thunk(ex, first=first):
                    ex.call(obs[4], [])          # concrete default parameters (the symbolic ones of the view would fork every comparison in sanity_check)
                    a = ex.st.new_region('alloca', 8, 'harness:vec')
                    models.new_vec(ex, Ptr(a.rid, 0), fs, 2, lambda i: tm.sym('e%d' % i))
                    if first == 'set_vec':
                        ex.call(fsv, [S.new_string(ex, 'no_such_name'), Ptr(a.rid, 0)])
                    elif first == 'get_vec':
                        ex.call(fgv, [S.new_string(ex, 'no_such_name'), Ptr(a.rid, 0)])
                    elif first == 'set_param':
                        ex.call(fsp, [S.new_string(ex, 'no_such_name'), tm.sym('V')])
                    else:
                        ex.call(fgp, [S.new_string(ex, 'no_such_name')])
                    for f_ in obs[:3]:
                        ex.call(f_, [])
                    o = ex.st.new_region('alloca', 8, 'harness:out')
                    models.new_vec(ex, Ptr(o.rid, 0), fs)
                    ex.call(fgv, [S.new_string(ex, 'no_such_name'), Ptr(o.rid, 0)])
                    ex.call(fgp, [S.new_string(ex, 'no_such_name')])
                    for f_ in obs[3:]:
                        ex.call(f_, [])
                    ex.call(obs[2], [])
                    return None
                try:
                    paths = ex.explore(v.st, thunk, 32)
                except UnwindBound as e_:
                    chk.notes.append('unknown-name sequence on %s<%s> (%s first) not explored: %s' % (name, scalar, first, e_))
                    continue
                except ExecError as e_:
                    paths = [dict(pc=[], error=str(e_), terminal=None, st=v.st)]
                bad = [pc_term(p['pc']) for p in paths if (bad_events(p) or p['error'] is not None) and p['terminal'] is None]
                call = {'set_vec': 'masa_set_vec<Scalar>("no_such_name",a);', 'get_vec': 'masa_get_vec<Scalar>("no_such_name",a);',
                        'set_param': 'masa_set_param<Scalar>("no_such_name",(Scalar)1.5);', 'get_param': 'masa_get_param<Scalar>("no_such_name");'}[first]
                chk.paths_clean('unknown-name<%s>:%s:%s-then-observers:no-memory-event' % (scalar, name, first), bad, key='unknown-name:%s:%s' % (name, first), family='vector-events',
                                sample=dict(obligation='refused %s, then display/sanity/get/purge/init_param' % first, events=[str(bad_events(p)[:2])[:200] for p in paths if bad_events(p)][:2]),
                                replay=vg_replay(chk, ['masa_init<Scalar>("a","%s"); std::vector<Scalar> a(2,(Scalar)0.5), o; %s' % (name, call),
                                                       'masa_display_vec<Scalar>(); masa_display_param<Scalar>(); masa_sanity_check<Scalar>(); masa_get_vec<Scalar>("no_such_name",o); masa_get_param<Scalar>("no_such_name");',
                                                       'masa_purge_default_param<Scalar>(); masa_init_param<Scalar>(); masa_sanity_check<Scalar>();'],
                                                 'store operations after a refused %s' % first, scalar))
    # ---- 6b. vector solutions: every combination of vector lengths in {0,1,2} (symbolic contents), then every evaluator:
    #          a solution must either refuse (documented -1 / warning) or stay inside its vectors
    import itertools
    for scalar in ('double', 'long double'):
        fs = 8 if scalar == 'double' else 16
        apis = c15.api_list(w, scalar)
        for name, concrete_params in (('radiation_integrated_intensity', False), ('cp_normal', False), ('radiation_integrated_intensity', True), ('cp_normal', True)):
            v = pde.RegView(chk, w, name, scalar)
            vnames = sorted(v.sol['vecs'])
            lens = (0, 1, 2)
            if concrete_params:
                # scalar parameters at their registered defaults (a loop bound taken from a parameter -- e.g. a count of terms -- is then concrete
                # and is compared with the vector lengths); vector contents stay symbolic
                base_st = w.find(scalar, name)[0].clone()
                base_st.mem[(v.reg_rid, 0)] = (8, v.sol['ptr'])
                base_st.events, base_st.writes = [], []
            else:
                base_st = v.st
            for combo in itertools.product(lens, repeat=len(vnames)):
                st = base_st.clone()
                for vn, n in zip(vnames, combo):
                    a = v.sol['vecs'][vn][1]
                    vv = st.side_mut((a.rid, a.off))
                    vv.n = n
                    st.mut(vv.buf).size = n * vv.es
                    for i in range(n):
                        st.mem[(vv.buf, i * vv.es)] = (vv.es, tm.sym('%s[%d]' % (vn, i)))
                for cap in CAPS.get(name, []):
                    meth, sig = cap[:-1].split('(')
                    cands = [(fn_, api, sg) for fn_, api, sg in apis if A.virtual_of(api) == meth and sg == sig]
                    if not cands:
                        continue
                    fn_, api, sg = cands[0]
                    if sg == 'int':
                        continue
                    args = c15.sym_args(sg)
                    try:
                        paths = w.ex.explore(st, lambda e: e.call(fn_, list(args)), 64)
                    except UnwindBound:
                        skipped += 1
                        continue
                    bad = [pc_term(p['pc']) for p in paths if bad_events(p) or (p['error'] is not None and not isinstance(p['error'], UnwindBound))]
                    why = ''
                    for p in paths:
                        if bad_events(p) or p['error'] is not None:
                            why = str(bad_events(p)[:1] or p['error'])[:200]
                    setup = ' '.join('{ std::vector<Scalar> t_(%d,(Scalar)0.5); masa_set_vec<Scalar>("%s",t_); }' % (n + (38 if n else 0), vn) for vn, n in zip(vnames, combo))
                    setup_exact = ' '.join('{ std::vector<Scalar> t_(%d,(Scalar)0.5); masa_set_vec<Scalar>("%s",t_); }' % (n, vn) for vn, n in zip(vnames, combo))
                    call = '%s<Scalar>(%s)' % (api, ','.join('(Scalar)0.37' for q in sg.split(',') if q))
                    chk.paths_clean('vector-lengths<%s>:%s:%s=%s:%s%s:no-memory-event' % (scalar, name, ','.join(vnames), combo, api, ':default-parameters' if concrete_params else ''), bad, key='vector-lengths:%s:%s' % (name, api), family='vector-length-combinations',
                                    sample=dict(obligation='lengths %r then %s' % (dict(zip(vnames, combo)), api), why=why),
                                    replay=vg_replay(chk, ['masa_init<Scalar>("a","%s"); %s volatile Scalar r = %s;' % (name, setup, call)], 'vector lengths %r then %s: %s' % (dict(zip(vnames, combo)), api, why), scalar,
                                                     alt_lines=['masa_init<Scalar>("a","%s"); %s volatile Scalar r = %s;' % (name, setup_exact, call)]))
    # ---- 7. C array interface through the real callee, lengths 0..n
    v = pde.RegView(chk, w, 'cp_normal', 'double')
    ex = w.ex
    import build
    if 'masa_set_array' not in w.prog.functions:
        chk.infra.append('C wrapper unit cmasa.cpp could not be lowered to IR: %s' % (build.SKIPPED_UNITS[:1],))
    for n in (range(0, nmax + 1) if 'masa_set_array' in w.prog.functions else ()):
        def thunk(ex):
            nm = ex.st.new_region('callerbuf', 16, 'caller:name')
            nm.fresh = False
            ex.st.side_set((nm.rid, 0), models.CStr('vec_data'))
            ln = ex.st.new_region('callerbuf', 4, 'caller:int')
            ex.st.mem[(ln.rid, 0)] = (4, n)
            arr = ex.st.new_region('callerbuf', 8 * n, 'caller:double[%d]' % n)
            for i in range(n):
                ex.st.mem[(arr.rid, 8 * i)] = (8, tm.sym('val%d' % i))
            ex.call('masa_set_array', [Ptr(nm.rid, 0), Ptr(ln.rid, 0), Ptr(arr.rid, 0)])
            out = ex.st.new_region('callerbuf', 8 * n, 'caller:out[%d]' % n)
            ex.call('masa_get_array', [Ptr(nm.rid, 0), Ptr(ln.rid, 0), Ptr(out.rid, 0)])
            return [ex.st.mem.get((out.rid, 8 * i), (8, None))[1] for i in range(n)], ex.st.mem[(ln.rid, 0)][1]
        paths = ex.explore(v.st, thunk, 8)
        bad = [pc_term(p['pc']) for p in paths if bad_events(p) or p['error'] is not None or p['ret'][1] != n or any(a is not tm.sym('val%d' % i) for i, a in enumerate(p['ret'][0]))]
        chk.paths_clean('c-array:set_array/get_array:n=%d:in-bounds-and-round-trip' % n, bad, key='c-array', family='c-array',
                        replay=vg_replay(chk, ['masa_init("a","cp_normal"); int n=%d; double a[%d], o[%d]; for(int i=0;i<n;i++) a[i]=0.5+i; masa_set_array("vec_data",&n,a); masa_get_array("vec_data",&n,o);' % (n, max(n, 1), max(n, 1))],
                                         'C array interface with length %d' % n, lang='c'))
    chk.extra_cov['evaluator_checks_skipped_for_path_bound'] = skipped
    chk.solve_all()


if __name__ == '__main__':
    framework.main('C19', body)
