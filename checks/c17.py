"""C17 C interface is a faithful view of the C++ double interface."""
import sys, os, re
sys.path.insert(0, os.path.join(os.path.dirname(os.path.abspath(__file__)), '..', 'mv'))
sys.path.insert(0, os.path.join(os.path.dirname(os.path.abspath(__file__)), '..'))
import terms as tm
from terms import T
import framework
import build
import pde
import sol as S
import models
from models import CStr, StrVal, VecVal
from exec import Ptr, NULL, ExecError, pc_term

CNAME_SPECIAL = {'masa_set_array': 'masa_set_vec', 'masa_get_array': 'masa_get_vec', 'masa_display_array': 'masa_display_vec'}
MUST_FORWARD_STATUS = ('masa_init_param', 'masa_sanity_check', 'masa_get_array')


def c_signatures():
    """parameter kinds of every extern "C" definition, read from the source text (harness set-up only)"""
    src_ = os.path.join(build.REPO, 'src', 'cmasa.cpp')
    txt = open(src_).read()
    # the definitions are read from the PREPROCESSED unit, so that wrappers stamped out by macros are seen as what they expand to
    try:
        import subprocess
        pp = subprocess.run(['clang++-14', '-E', '-P', '-w', '-std=c++11', '-I', os.path.join(build.VERIF, 'stubs'), '-I', build.REPO, '-I', os.path.join(build.REPO, 'src'), src_],
                            stdout=subprocess.PIPE, stderr=subprocess.PIPE, universal_newlines=True, timeout=120)
        if pp.returncode == 0 and 'extern' in pp.stdout:
            txt = pp.stdout
    except Exception:
        pass
    sigs = {}
    fn_typedefs = function_pointer_typedefs(txt)
    # every definition of a function named masa_* with a C return type (int/double/void): written with its own extern "C", inside an
    # extern "C" { } block, or produced by a macro -- whether it has C linkage is decided by the IR (unmangled symbol), not by this text
    for m in re.finditer(r'(?<![\w:>])(?:extern\s+"C"\s+)?(?:const\s+)?(int|double|void)\s+(masa_\w+)\s*\(([^)]*(?:\([^)]*\)[^)]*)*)\)\s*\{', txt):
        ret, name, params = m.group(1).strip(), m.group(2), m.group(3)
        kinds = []
        depth, cur, parts = 0, '', []
        for ch in params:
            if ch == '(':
                depth += 1
            if ch == ')':
                depth -= 1
            if ch == ',' and depth == 0:
                parts.append(cur)
                cur = ''
            else:
                cur += ch
        if cur.strip():
            parts.append(cur)
        for p in parts:
            k_ = param_kind(p, fn_typedefs)
            if k_ is not None:
                kinds.append(k_)
        sigs[name] = (ret, kinds)
    return sigs


def function_pointer_typedefs(txt):
    """names introduced by `typedef R (*name)(args);`"""
    return set(re.findall(r'typedef\s+[\w\s\*]+?\(\s*\*\s*(\w+)\s*\)\s*\([^)]*\)\s*;', txt))


def param_kind(p, fn_typedefs=()):
    """classification of one C parameter declaration: dbl | int | cstr | charbuf | intp | dblp | fn (None for void / empty)"""
    p = p.strip()
    if p in ('', 'void'):
        return None
    words = re.findall(r'\w+', p)
    if '(*' in p.replace(' ', '') or (words and any(w in fn_typedefs for w in words)):
        return 'fn'
    ptr = '*' in p or '[' in p
    if 'char' in words and ptr:
        return 'cstr' if 'const' in words else 'charbuf'
    if 'int' in words and ptr:
        return 'intp'
    if 'double' in words and ptr:
        return 'dblp'
    if 'double' in words:
        return 'dbl'
    if 'int' in words:
        return 'int'
    return '?' + p


def expected_callee(cname):
    if cname in CNAME_SPECIAL:
        return CNAME_SPECIAL[cname]
    m = re.match(r'^masa_eval_(\d)d_(\w+)$', cname)
    if m:
        return 'masa_eval_' + m.group(2)
    return cname


def body(chk):
    # the wrappers are analysed in the default configuration and again with -DNDEBUG (release builds compile assert() away: a wrapper whose
    # forwarding call sits inside an assert forwards nothing there)
    body_in(chk)
    chk.config_extra, chk.name_suffix = ('-DNDEBUG',), '[NDEBUG]'
    try:
        body_in(chk)
    finally:
        chk.config_extra, chk.name_suffix = (), ''
    chk.bounds['build_configurations'] = ['default', '-DNDEBUG']


def body_in(chk):
    try:
        w = chk.world(units=['cmasa'])
        w.ex.step_budget = 300000       # the wrappers are a few instructions: a path that needs more is a runaway loop (e.g. an unsigned bound that wrapped)
    except RuntimeError as e:
        # clang refuses a wrapper whose definition conflicts with its prototype in masa.h (g++ only warns when the definition sits in a
        # namespace): a C caller, who sees the prototype, cannot be calling the function that is defined
        conflicts = sorted(set(re.findall(r"conflicting types for \W{1,3}(\w+)", str(e))))
        if not conflicts:
            raise
        for n in conflicts:
            chk.paths_clean('%s:definition-agrees-with-the-prototype-C-callers-see' % n, [tm.TRUE], key='%s:callee' % n, family='callee',
                            sample=dict(obligation='prototype vs definition of %s' % n, diagnostic=str(e)[-600:]))
        chk.notes.append('cmasa.cpp does not compile with clang (conflicting types for %r): the remaining wrappers were not analysed in this run' % conflicts)
        chk.solve_all()
        return
    wc = chk.world()
    wc.ex.step_budget = 1000000
    # full program: used to run the real C++ templates where a wrapper returns a constant
    nmax = 4 if chk.tier == 'quick' else 8
    chk.assumptions += ['MASA::masa_*<double> templates are uninterpreted in the wrapper analysis (arguments and abstract library state); their own behaviour is C10-C16',
                        'caller buffers are large enough (C has no way to pass their size)', 'array lengths enumerated 0..%d with symbolic contents' % nmax]
    chk.bounds = dict(array_length='0..%d' % nmax, arguments='symbolic')
    sigs = c_signatures()
    ex = w.ex
    cfns = sorted(n for n, f in w.prog.functions.items() if not n.startswith('_Z') and '::' not in n and f['module'] == 'cmasa')
    chk.extra_cov['c_entry_points'] = len(cfns)
    # opaque summaries for every C++ callee declared by cmasa
    log = []

    def make_summary(name, dem):
        m = re.match(r'^(?:.* )?MASA::(\w+)<(.*?)>\((.*)\)$', dem)
        base, targ, sig = m.group(1), m.group(2), m.group(3)
        decl = w.prog.decls[name]

        def summary(ex, args, inst):
            vals = []
            import c16
            parts = c16.split_sig(sig)
            for a, p in zip(args, parts):
                p = p.strip()
                if p == 'std::string':
                    vals.append(('str', models.get_str(ex, a).v))
                elif p == 'std::string*':
                    models.set_str(ex, a, tm.sym('CALLEE_NAME', 'S'))
                    vals.append(('strout', None))
                elif p == 'int*':
                    ex.store(a, 4, tm.sym('CALLEE_INT', 'I'))
                    vals.append(('intout', a))
                elif p.startswith('std::vector<'):
                    v = models.get_vec(ex, a)
                    snap = [ex.load(Ptr(v.buf, i * 8), 8, 'f64') for i in range(v.n)]
                    vals.append(('vec', snap))
                    if base == 'masa_get_vec':
                        vv = models.get_vec(ex, a, mut=True)
                        mm = summary.callee_len
                        for i in range(mm):
                            ex.store(Ptr(vv.buf, i * 8), 8, tm.sym('cv%d' % i))
                        vv.n = mm
                        ex.st.mut(vv.buf).size = mm * 8
                else:
                    vals.append(('val', a))
            ex.st.event('callee', base, targ, tuple(vals))
            rt = decl['ret']
            if rt == 'void':
                return None
            return tm.uf('ret:%s' % base, sort='I' if rt.startswith('i') else 'R')
        summary.callee_len = 0
        return summary
    summaries = {}
    for n in w.prog.decls:
        d = w.models.demangled(n)
        if re.match(r'^(?:.* )?MASA::\w+<.*>\(', d) and n not in w.prog.functions:
            summaries[n] = make_summary(n, d)
            ex.opaque[n] = summaries[n]
    # real-callee constant status table (for wrappers that return a constant)
    const_status = {}

    def callee_constant(base):
        """value c such that MASA::<base><double>() returns c on every path for every catalogue class (arguments/parameters symbolic), else None"""
        if base in const_status:
            return const_status[base]
        vals = set()
        try:
            fn = [n for n in wc.prog.functions if re.match(r'^(?:.* )?MASA::%s<double>\(\)$' % base, wc.models.demangled(n))]
            if not fn:
                const_status[base] = None
                return None
            st0, sols, _ = wc.catalogue('double')
            for s in sols:
                v = pde.RegView(chk, wc, s['name'], 'double')
                for st in (v.st, v.st_concrete if hasattr(v, 'st_concrete') else v.st):
                    try:
                        for p in wc.ex.explore(st, lambda ex: ex.call(fn[0], []), 32):
                            vals.add(p['ret'] if p['error'] is None and p['terminal'] is None else 'terminal')
                    except ExecError:
                        vals.add('many')
        except Exception as e:
            vals.add(repr(e))
        ints = [x for x in vals if isinstance(x, int)]
        r = ints[0] if len(vals) == 1 and len(ints) == 1 else None
        const_status[base] = r
        const_status[base + ':values'] = sorted(str(x) for x in vals)[:6]
        return r

    for cname in cfns:
        if cname not in sigs:
            chk.infra.append('no source signature found for extern "C" %s' % cname)
            continue
        ret, kinds = sigs[cname]
        if cname == 'masa_test_default':
            continue        # self-contained test helper (calls exit), not a view of a C++ template
        want = expected_callee(cname)
        lens = range(0, nmax + 1) if 'dblp' in kinds else [None]
        for n in lens:
            syms = {}

            def thunk(ex):
                args = []
                for k, kind in enumerate(kinds):
                    if kind == 'dbl':
                        a = tm.sym('x%d' % k)
                    elif kind == 'int':
                        a = tm.sym('i%d' % k, 'I')
                    elif kind == 'fn':
                        a = tm.sym('f%d' % k, 'P')
                    elif kind in ('cstr', 'charbuf'):
                        r = ex.st.new_region('callerbuf', 256, 'caller:%s' % kind)
                        r.fresh = False
                        s = tm.sym('s%d' % k, 'S')
                        ex.st.side_set((r.rid, 0), CStr(s))
                        a = Ptr(r.rid, 0)
                        syms[k] = s
                    elif kind == 'intp':
                        r = ex.st.new_region('callerbuf', 4, 'caller:int')
                        r.fresh = False
                        # *n on entry is arbitrary: masa_get_array's length argument is output-only, so the data delivered may not depend on it
                        ex.st.mem[(r.rid, 0)] = (4, tm.sym('n_in%d' % k, 'I') if (n is None or cname == 'masa_get_array') else n)
                        a = Ptr(r.rid, 0)
                    elif kind == 'dblp':
                        cap = (n if cname == 'masa_set_array' else nmax)
                        r = ex.st.new_region('callerbuf', 8 * cap, 'caller:double[%d]' % cap)
                        for i in range(cap):
                            ex.st.mem[(r.rid, 8 * i)] = (8, tm.sym('val%d' % i))
                        r.fresh = False
                        a = Ptr(r.rid, 0)
                    else:
                        raise ExecError('unknown C parameter kind %s' % kind)
                    syms.setdefault(k, a)
                    args.append(a)
                thunk.args = args
                return ex.call(cname, args)
            for sname, sm in summaries.items():
                sm.callee_len = n if n is not None else 0
            paths = ex.explore(w.base, thunk, 64)
            chk.functions.add(cname)
            bad_callee, bad_ret, bad_data = [], [], []
            why = []
            for p in paths:
                pc = pc_term(p['pc'])
                if p['error'] is not None or p['terminal'] is not None:
                    bad_callee.append(pc)
                    why.append(str(p['error'] or p['terminal']))
                    continue
                calls = [e for e in p['st'].events if e[0] == 'callee']
                ok = len(calls) == 1 and calls[0][1] == want and calls[0][2] == 'double'
                args = thunk.args
                if ok:
                    vals = calls[0][3]
                    # arguments in order
                    ci = 0
                    passed = []
                    for (kind_, v_) in vals:
                        passed.append((kind_, v_))
                    want_args = []
                    for k, kind in enumerate(kinds):
                        if kind in ('dbl', 'int', 'fn'):
                            want_args.append(('val', args[k]))
                        elif kind == 'cstr':
                            want_args.append(('str', syms[k]))
                    if cname == 'masa_set_array':
                        want_args.append(('vec', [tm.sym('val%d' % i) for i in range(n)]))
                    if cname == 'masa_get_array':
                        want_args.append(('vec', []))
                    if cname == 'masa_get_name':
                        want_args = [('strout', None)]
                    if cname == 'masa_get_dimension':
                        want_args = [('intout', args[0])]
                    ok = len(passed) == len(want_args)
                    if ok:
                        for (ka, va), (kb, vb) in zip(passed, want_args):
                            if ka != kb:
                                ok = False
                            elif ka == 'vec':
                                ok = ok and len(va) == len(vb) and all(x is y for x, y in zip(va, vb))
                            elif ka in ('val', 'str'):
                                ok = ok and (va is vb or va == vb)
                    if not ok:
                        why.append('callee arguments %r, expected %r' % (passed, want_args))
                else:
                    why.append('callee events %r, expected one call of MASA::%s<double>' % ([(c[1], c[2]) for c in calls], want))
                if not ok:
                    bad_callee.append(pc)
                # return value
                r = p['ret']
                cret = [d for nme, d in ((nn, w.prog.decls[nn]) for nn in summaries) if re.search(r'MASA::%s<double>\(' % want, w.models.demangled(nme))]
                callee_void = bool(cret) and all(d['ret'] == 'void' for d in cret)
                if ret != 'void' and not callee_void:
                    forwards = isinstance(r, T) and r.op == 'uf' and r.p == 'ret:%s' % want
                    if not forwards:
                        if ret == 'double':
                            bad_ret.append(pc)
                            why.append('returns %r instead of the callee result' % (r,))
                        else:
                            # a wrapper that returns a constant is faithful only if the real C++ template returns that constant
                            # on every explored path of every catalogue class (paths cut by the exploration bound do not count against it)
                            callee_constant(want)
                            observed = [x for x in const_status.get(want + ':values', []) if x.lstrip('-').isdigit()]
                            differs = isinstance(r, int) and any(int(x) != r for x in observed)
                            if cname in MUST_FORWARD_STATUS or differs or not isinstance(r, int):
                                bad_ret.append(pc)
                                why.append('returns constant %r while MASA::%s<double> reports %s' % (r, want, const_status.get(want + ':values')))
                # data movement
                if cname == 'masa_get_name':
                    buf = p['st'].side.get((args[0].rid, 0))
                    if not (isinstance(buf, CStr) and buf.v is tm.sym('CALLEE_NAME', 'S')):
                        bad_data.append(pc)
                        why.append('caller buffer holds %r after the call, not the solution name' % (buf.v if buf else None))
                if cname == 'masa_get_array':
                    lenv = p['st'].mem.get((args[1].rid, 0), (4, None))[1]
                    arr = [p['st'].mem.get((args[2].rid, 8 * i), (8, None))[1] for i in range(n)]
                    if lenv != n or any(a is not tm.sym('cv%d' % i) for i, a in enumerate(arr)):
                        bad_data.append(pc)
                        why.append('*n=%r array=%r' % (lenv, arr))
                if any(e[0] in ('oob', 'uninit-use', 'dangling') for e in p['st'].events):
                    bad_data.append(pc)
                    why.append('memory event %r' % [e for e in p['st'].events if e[0] in ('oob', 'uninit-use', 'dangling')][:2])
            tag = cname if n is None else '%s[n=%d]' % (cname, n)
            smp = dict(obligation=tag, kinds=kinds, expected_callee='MASA::%s<double>' % want, paths=len(paths), why=why[:2])
            chk.paths_clean('%s:calls-the-prescribed-template-with-arguments-in-order' % tag, bad_callee, key='%s:callee' % cname, family='callee', sample=smp,
                            replay=c_replay(chk, cname, 'callee', '; '.join(why[:2])))
            chk.paths_clean('%s:returns-the-callee-result' % tag, bad_ret, key='%s:status' % cname, family='result', replay=c_replay(chk, cname, 'status', '; '.join(why[:2])))
            if cname in ('masa_get_name', 'masa_get_array', 'masa_set_array'):
                chk.paths_clean('%s:moves-the-data' % tag, bad_data, key='%s:data' % cname, family='data', replay=c_replay(chk, cname, 'data', '; '.join(why[:2])))
    # only <double> templates are referenced by the C interface
    others = [w.models.demangled(n) for n in w.prog.decls if re.match(r'^(?:.* )?MASA::\w+<(?!double>).*>\(', w.models.demangled(n))]
    chk.paths_clean('cmasa-references-only-double-templates', [tm.TRUE] if others else [], family='registry', sample=dict(obligation='reference scan', others=others[:3]))
    chk.solve_all()


C_REPLAYS = {
    ('masa_get_name', 'data'): ('char buf[128]; memset(buf,\'x\',100); buf[100]=0; masa_init("h","euler_1d"); masa_get_name(buf); printf("\\nR name %s\\n", buf); masa_init("g","navierstokes_3d_compressible"); masa_get_name(buf); masa_select_mms("h"); masa_get_name(buf); printf("R again %s.\\n", buf);', ['R name euler_1d\n', 'R again euler_1d.']),
    ('masa_init_param', 'status'): ('masa_init("h","masa_test_function"); int rc = masa_init_param(); printf("\\nR nonzero %d\\n", rc!=0);', ['R nonzero 1']),
    ('masa_sanity_check', 'status'): ('masa_init("h","euler_1d"); masa_purge_default_param(); int rc = masa_sanity_check(); printf("\\nR nonzero %d\\n", rc!=0);', ['R nonzero 1']),
    ('masa_get_array', 'status'): ('masa_init("h","cp_normal"); int n=0; double a[16]; int rc = masa_get_array("no_such_vector",&n,a); printf("\\nR nonzero %d\\n", rc!=0);', ['R nonzero 1']),
    ('masa_get_array', 'data'): ('masa_init("h","cp_normal"); double in[5]={1.5,2.5,3.5,4.5,5.5}; int k; masa_set_array("vec_data",&(int){5},in); int ns[4]={64,5,0,3}; for(k=0;k<4;k++){ double a[64]; int i; for(i=0;i<64;i++) a[i]=-7.0; int n=ns[k]; masa_get_array("vec_data",&n,a); int ok = (n==5); for(i=0;i<5;i++) ok = ok && a[i]==in[i]; for(i=5;i<64;i++) ok = ok && a[i]==-7.0; printf("\\nR entry %d ok %d\\n", ns[k], ok);}', ['R entry 64 ok 1', 'R entry 5 ok 1', 'R entry 0 ok 1', 'R entry 3 ok 1']),
    ('masa_purge_default_param', 'status'): ('masa_init("h","euler_1d"); printf("\\nR same %d\\n", masa_purge_default_param()==0);', ['R same 1']),
}


def c_replay(chk, cname, what, why):
    def replay(ob, model):
        ent = C_REPLAYS.get((cname, what))
        if ent is None:
            return dict(reproduced=True, path=chk.save_replay(ob, dict(obligation=ob.name, why=why)), detail=why)
        code, expect = ent
        src = '#include <masa.h>\n#include <stdio.h>\n#include <string.h>\nint main(){ %s\n return 0;}\n' % code
        rc, out, err = chk.lib().run(src, lang='c')
        missing = [e for e in expect if e not in out]
        if missing:
            path = chk.save_replay(ob, dict(obligation=ob.name, expected=expect, stdout=out[-1500:], rc=rc, why=why), src)
            return dict(reproduced=True, path=path, detail='%s: %s; C replay lacks %r' % (cname, why, missing))
        return dict(reproduced=False, path=None, detail='C replay behaves as specified')
    return replay


if __name__ == '__main__':
    framework.main('C17', body)
