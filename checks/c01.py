"""C01 Heat conduction: source = rho cp(T) T_t - div(k(T) grad T) on the documented T; exact_t = T."""
import sys, os
sys.path.insert(0, os.path.join(os.path.dirname(os.path.abspath(__file__)), '..', 'mv'))
sys.path.insert(0, os.path.join(os.path.dirname(os.path.abspath(__file__)), '..'))
import terms as tm
import framework
import pde
from pde import X, Y, Z, TT
from spec import fields, operators


def body(chk):
    w = chk.world()
    chk.assumptions += ['real-arithmetic model of FP (formula layer, DESIGN.md §3.3)', 'sin/cos abstracted to points on the unit circle (sound)']
    chk.bounds = dict(values='unbounded (all real parameter values and points)', loops='none (loop-free evaluators)')
    val = []
    for scalar in ('double', 'long double'):
        for dim in (1, 2, 3):
            for steady in (True, False):
                for var in ('const', 'var'):
                    name = 'heateq_%dd_%s_%s' % (dim, 'steady' if steady else 'unsteady', var)
                    v = pde.SolView(chk, w, name, scalar)
                    coords = [X, Y, Z][:dim]
                    args = coords + ([] if steady else [TT])
                    T = fields.heat_T(v.P, dim, steady)
                    ref = operators.heat(T, coords, v.P, steady)
                    lib = v.term('eval_q_t', args)
                    chk.identity('%s<%s>:eval_q_t' % (name, scalar), lib, ref, [], fns=[], key='%s:eval_q_t' % name,
                                 replay=pde.make_replay(chk, v, 'eval_q_t', args, lib, ref))
                    val.append((v, 'eval_q_t', args, lib))
                    if v.has('eval_exact_t', len(args)):
                        le = v.term('eval_exact_t', args)
                        chk.identity('%s<%s>:eval_exact_t' % (name, scalar), le, T, [], key='%s:eval_exact_t' % name,
                                     replay=pde.make_replay(chk, v, 'eval_exact_t', args, le, T))
                        val.append((v, 'eval_exact_t', args, le))
    import c09
    c09.add_type_purity(chk, ['heateq_'])
    chk.solve_all()
    pde.validate_terms(chk, val, npoints=2 if chk.tier == 'quick' else 6)


if __name__ == '__main__':
    framework.main('C01', body)
