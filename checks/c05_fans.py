"""FANS-SA parts of C05: transient free shear and steady wall bounded."""
from fractions import Fraction
import terms as tm
from terms import T, D
import pde
import sweep
from pde import X, Y, TT
from spec import operators, fields


def free_shear_fields(P):
    """documented transient fields: Roy form + temporal completion (t column of fields.ROY); nu_sa: cosines"""
    f = {k: fields.roy(P, k, 'xyt') for k in ('rho', 'u', 'v', 'p')}
    pi, L = tm.PI, P['L']
    f['nu'] = P['nu_sa_0'] + P['nu_sa_x'] * tm.fn('cos', P['a_nusax'] * pi * X / L) + P['nu_sa_y'] * tm.fn('cos', P['a_nusay'] * pi * Y / L) + P['nu_sa_t'] * tm.fn('cos', P['a_nusat'] * pi * TT / L)
    return f


def build(chk, w, val):
    for scalar in ('double', 'long double'):
        v = pde.SolView(chk, w, 'fans_sa_transient_free_shear', scalar)
        P = v.P
        f = free_shear_fields(P)
        names = list(P) + ['x', 'y', 't']
        A = [tm.cmp('ne', P['L'], tm.ZERO), tm.cmp('gt', f['rho'], tm.ZERO), tm.cmp('gt', f['nu'], tm.ZERO), tm.cmp('gt', P['mu'], tm.ZERO), tm.cmp('ne', P['R'], tm.ZERO),
             tm.cmp('ne', P['Gamma'], tm.ONE), tm.cmp('ne', P['Pr'], tm.ZERO), tm.cmp('ne', P['Pr_t'], tm.ZERO), tm.cmp('ne', P['sigma'], tm.ZERO), tm.cmp('gt', P['c_v1'], tm.ZERO)]
        tag = 'fans_sa_transient_free_shear<%s>' % scalar
        # exact fields: 3-argument nu = documented; 2-argument forms = t=0 sections of the documented transient fields
        at0 = lambda term: tm.subst([term], {TT: tm.ZERO})[0]
        nu3 = v.term('eval_exact_nu', [X, Y, TT])
        chk.identity('%s:eval_exact_nu(x,y,t)=documented' % tag, nu3, f['nu'], A[:1], key='fans_free:eval_exact_nu', family='fans-free-exact',
                     replay=pde.make_replay(chk, v, 'eval_exact_nu', [X, Y, TT], nu3, f['nu']))
        for fld in ('u', 'v', 'p', 'rho', 'nu'):
            e2 = v.term('eval_exact_' + fld, [X, Y])
            chk.identity('%s:eval_exact_%s(x,y)=field(x,y,t=0)' % (tag, fld), e2, at0(f[fld]), A[:1], key='fans_free:eval_exact_%s:t0' % fld, family='fans-free-exact',
                         replay=pde.make_replay(chk, v, 'eval_exact_' + fld, [X, Y], e2, at0(f[fld])))
            val.append((v, 'eval_exact_' + fld, [X, Y], e2))
        res = operators.fans_sa(f, [X, Y], P, t=TT)
        # as-built operator of the known findings (f_v1 frozen under differentiation; rho*cv*dT/dt missing from the energy source)
        res_ab = operators.fans_sa(f, [X, Y], P, t=TT, asbuilt=dict(f_v1_not_differentiated=True, energy_without_rho_cv_dTdt=True))
        for eq in ('rho', 'rho_u', 'rho_v', 'rho_e', 'nu'):
            meth = 'eval_q_' + eq
            lib = v.term(meth, [X, Y, TT])
            if eq in ('rho_u', 'rho_v', 'rho_e'):
                sweep.pathwise_identity(chk, '%s:%s:as-built' % (tag, meth), v.last_paths, res_ab[eq], A, names, key='fans_free:%s:as-built' % meth, family='fans-free-as-built',
                                        replay=pde.make_replay(chk, v, meth, [X, Y, TT], lib, res_ab[eq]))
                chk.identity('%s:%s' % (tag, meth), res_ab[eq], res[eq], A, key='fans_free:%s' % meth, family='fans-free', witnesses=False,
                             replay=pde.make_replay(chk, v, meth, [X, Y, TT], lib, res[eq]))
            else:
                sweep.pathwise_identity(chk, '%s:%s' % (tag, meth), v.last_paths, res[eq], A, names, key='fans_free:%s' % meth, family='fans-free',
                                        replay=pde.make_replay(chk, v, meth, [X, Y, TT], lib, res[eq]))
            val.append((v, meth, [X, Y, TT], lib))
            lib2 = v.term(meth, [X, Y])
            chk.identity('%s:%s(x,y)=(x,y,t=0)' % (tag, meth), lib2, at0(lib), A, key='fans_free:%s:t0' % meth, family='fans-free-t0', witnesses=False,
                         replay=pde.make_replay(chk, v, meth, [X, Y], lib2, at0(lib)))


def wall_bounded(chk, w, val, scalars=('double', 'long double'), eqs=('rho', 'rho_u', 'rho_v', 'nu', 'rho_e')):
    for scalar in scalars:
        v = pde.SolView(chk, w, 'fans_sa_steady_wall_bounded', scalar)
        P = v.P
        f = {}
        for k, meth in (('u', 'eval_exact_u'), ('v', 'eval_exact_v'), ('rho', 'eval_exact_rho'), ('p', 'eval_exact_p'), ('nu', 'eval_exact_nu')):
            f[k] = v.term(meth, [X, Y])
            val.append((v, meth, [X, Y], f[k]))
        Texact = v.term('eval_exact_t', [X, Y])
        names = list(P) + ['x', 'y']
        ranges = {'x': (Fraction(1, 2), Fraction(3, 2)), 'y': (Fraction(1, 100), Fraction(1, 20)), 'M_inf': (Fraction(1, 2), Fraction(1)), 'r_T': (Fraction(1, 2), Fraction(9, 10)),
                  'Gamma': (Fraction(6, 5), Fraction(8, 5)), 'alpha': (Fraction(1, 10), Fraction(1, 2)), 'kappa': (Fraction(2, 5), Fraction(1, 2)), 'mu': (Fraction(1, 1000), Fraction(1, 500)),
                  'C_cf': (Fraction(1, 50), Fraction(1, 20))}
        # sampling ranges (fingerprints, replays, point search) of the other parameters: around the registered default values
        for n_, d_ in v.defaults.items():
            if n_ not in ranges and d_ > 0:
                ranges[n_] = (Fraction(d_) / 2, Fraction(d_) * 3 / 2)
        A = [tm.cmp('gt', X, tm.ZERO), tm.cmp('gt', Y, tm.ZERO), tm.cmp('gt', f['rho'], tm.ZERO), tm.cmp('gt', f['nu'], tm.ZERO), tm.cmp('gt', P['mu'], tm.ZERO), tm.cmp('gt', P['R'], tm.ZERO),
             tm.cmp('gt', P['Gamma'], tm.ONE), tm.cmp('gt', P['Pr'], tm.ZERO), tm.cmp('gt', P['Pr_t'], tm.ZERO), tm.cmp('gt', P['sigma'], tm.ZERO), tm.cmp('gt', P['c_v1'], tm.ZERO),
             tm.cmp('gt', P['kappa'], tm.ZERO), tm.cmp('gt', P['T_inf'], tm.ZERO), tm.cmp('gt', P['M_inf'], tm.ZERO), tm.cmp('gt', P['p_0'], tm.ZERO), tm.cmp('gt', P['r_T'], tm.ZERO),
             tm.cmp('gt', Texact, tm.ZERO)]
        tag = 'fans_sa_steady_wall_bounded<%s>' % scalar
        chk.identity('%s:T=p/(rho R)' % tag, Texact, f['p'] / (f['rho'] * P['R']), A, key='fans_wall:eval_exact_t', family='fans-wall-exact',
                     replay=pde.make_replay(chk, v, 'eval_exact_t', [X, Y], Texact, f['p'] / (f['rho'] * P['R']), ranges))
        # the temperature field of the operator is the library's own exact T, whose equality with p/(rho R) is the obligation just above
        res = operators.fans_sa(dict(f, T=Texact), [X, Y], P, t=None, wall_distance=Y)
        for eq in eqs:
            meth = 'eval_q_' + eq
            lib = v.term(meth, [X, Y])
            sweep.pathwise_identity(chk, '%s:%s' % (tag, meth), v.last_paths, res[eq], A, names, key='fans_wall:%s' % meth, family='fans-wall',
                                    replay=pde.make_replay(chk, v, meth, [X, Y], lib, res[eq], ranges), ranges=ranges)
            val.append((v, meth, [X, Y], lib))
