"""C09 Results are accurate to the working precision in both double and long double (solver-decidable part)."""
import sys, os, json, re
sys.path.insert(0, os.path.join(os.path.dirname(os.path.abspath(__file__)), '..', 'mv'))
sys.path.insert(0, os.path.join(os.path.dirname(os.path.abspath(__file__)), '..'))
from fractions import Fraction
import terms as tm
from terms import T
import framework
import pde
import smt
import sol as S
from exec import Ptr, ExecError, UnwindBound, pc_term, merge_paths
from spec import api as A
import c15

HERE = os.path.dirname(os.path.abspath(__file__))
CAPS = json.load(open(os.path.join(HERE, '..', 'spec', 'capabilities.json')))
COVERED = [n for n in CAPS if n.startswith(('heateq_', 'euler_', 'axi', 'navierstokes_2d', 'navierstokes_3d', 'navierstokes_4d', 'laplace', 'burgers', 'rans_sa', 'fans_sa', 'sod_1d', 'cp_normal'))]


class Recorder(object):
    def __init__(self):
        self.narrow = []
        self.n = 0


def long_double_slices(chk, w, names, only=None):
    """type purity of the long double instantiation of every evaluator (optionally only those whose virtual name starts with `only`)
    of the given solutions: constants, tolerances, narrowed intermediates (see body() for the assumptions)"""
    ex = w.ex
    rec = Recorder()

    def narrow_hook(ex_, op, ft, tt, v):
        if op == 'fptrunc' and ft == 'f80' and tt == 'f64' and ex_.cur_fn and 'Ie' in ex_.cur_fn:
            if tm.isc(v) and tm.round_to(v.p, 53) == v.p:
                return v
            rec.n += 1
            d = tm.sym('delta#%d' % rec.n)
            rec.narrow.append((ex_.cur_fn, d))
            return v * (1 + d)
        return v
    # ---- 1+2: long double slices
    scalar = 'long double'
    import c10
    c10.install_rtbis_summary(w, scalar)       # sod_1d: the bisection is summarised so that its call site (tolerance argument) is reached
    st0, sols, _ = w.catalogue(scalar)
    apis = c15.api_list(w, scalar)
    skipped = []
    for s in sols:
        name = s['name']
        if name not in names:
            continue
        v = pde.RegView(chk, w, name, scalar)
        for cap in CAPS[name]:
            meth, sig = cap[:-1].split('(')
            if only is not None and not meth.startswith(only):
                continue
            cands = [(fn_, api, sg) for fn_, api, sg in apis if A.virtual_of(api) == meth and sg == sig]
            if not cands:
                continue
            fn_, api, sg = cands[0]
            args = c15.sym_args(sg)
            rec.narrow = []
            ex.nonsimple = []
            ex.fp_log = []
            ex.snap_mode = 'lenient-sym'
            ex.dimg = {}
            tm_snap_cache_clear()
            w.models.narrow_hook = narrow_hook
            try:
                paths = ex.explore(v.st, lambda e: e.call(fn_, list(args)), 48)
            except UnwindBound:
                skipped.append('%s:%s' % (name, cap))
                continue
            finally:
                w.models.narrow_hook = None
                fplog, ex.fp_log = ex.fp_log, None
            chk.functions.add(fn_)
            # (1b) tolerances: a multiple of DBL_EPSILON = 2^-52 inside the long double slice is a double-precision tolerance
            deps = sorted(set((f_[-60:], str(v_ * 2 ** 52)) for f_, ty_, v_ in fplog if ty_ == 'f80' and f_ and 'Ie' in f_ and v_ > 0 and (v_ * 2 ** 52).denominator == 1 and (v_ * 2 ** 52) <= 64))
            def eps_like(v_):
                return any((v_ * 2 ** k_).denominator == 1 and 0 < v_ * 2 ** k_ <= 64 for k_ in (52, 63))
            images = [c for c in ex.nonsimple if c[3] in ('double-image', 'nonsimple') and c[0] and 'Ie' in c[0] and not eps_like(abs(c[2]))]
            tag = '%s<long double>:%s' % (name, cap)
            good = [p for p in paths if p['error'] is None and p['terminal'] is None]
            errs = [str(p['error']) for p in paths if p['error'] is not None and 'out of range' not in str(p['error'])]
            if errs:
                chk.infra.append('%s<long double>:%s: evaluator could not be executed symbolically: %s' % (name, cap, errs[0][:200]))
            if not good:
                continue
            res = merge_paths(good)
            res_act = None
            if ex.dimg and isinstance(res, T):
                # intended formula (what the obligations below are about) and the formula with the constants the binary actually holds
                res_act = tm.subst([res], dict((k_, b_) for k_, (a_, b_) in ex.dimg.items()))[0]
                res = tm.subst([res], dict((k_, a_) for k_, (a_, b_) in ex.dimg.items()))[0]
            rp_ = precision_replay(chk, name, api, sg, res, args, v, res_act)
            # (0) a bounded root finder: the iteration cap passed at the call site must let the bracket shrink below the tolerance passed with it
            #     in THIS scalar type (bisection: width/2^cap < tolerance); otherwise the long double evaluator gives up and returns garbage
            if isinstance(res, T) and meth in ('eval_q_rho', 'eval_q_rho_u'):      # (sod_1d::eval_q_t(x) calls rtbis with a cap of 1 on purpose: the library's own test of the give-up path)
                short = []
                for n_ in tm.topo([res]):
                    if n_.op == 'uf' and n_.p == 'rtbis' and len(n_.a) >= 4 and all(tm.isc(a_) for a_ in n_.a[:4]):
                        x1_, x2_, acc_, cap_ = [Fraction(a_.p) for a_ in n_.a[:4]]
                        if acc_ > 0 and abs(x2_ - x1_) / Fraction(2) ** int(cap_) >= acc_:
                            short.append((float(x1_), float(x2_), float(acc_), int(cap_)))
                if any(n_.op == 'uf' and n_.p == 'rtbis' for n_ in tm.topo([res])):
                    chk.paths_clean('%s:bisection-cap-reaches-the-tolerance-of-the-scalar-type' % tag, [tm.TRUE] if short else [], key='precision:%s:%s:bisection-cap' % (name, meth), family='constants',
                                    sample=dict(obligation=tag, bracket_tolerance_cap=short[:2]), replay=sod_precision_replay(chk, api) if name == 'sod_1d' else rp_)
            # (1) constants
            chk.paths_clean('%s:constants-are-long-double-roundings-of-simple-rationals' % tag, [tm.TRUE] if images else [], key='precision:%s:%s:constants' % (name, meth), family='constants',
                            sample=dict(obligation=tag, double_image_constants=[(c[0][-40:], float(c[2]), str(c[4])) for c in images[:4]]), replay=rp_)
            chk.paths_clean('%s:tolerances-scale-with-the-scalar-type' % tag, [tm.TRUE] if deps else [], key='precision:%s:%s:epsilon' % (name, meth), family='constants',
                            sample=dict(obligation=tag, multiples_of_DBL_EPSILON_in_long_double_code=deps[:4]),
                            replay=(sod_precision_replay(chk, api) if name == 'sod_1d' else rp_))
            # (2) narrowed intermediates: does the result depend on a delta?
            deltas = [t for t in tm.topo([res]) if t.op == 'sym' and t.p.startswith('delta#')] if isinstance(res, T) else []
            if deltas:
                res0 = tm.subst([res], {d: tm.ZERO for d in deltas})[0]
                enc = smt.Encoder()
                A_ = [tm.cmp('ne', d, tm.ZERO) for d in deltas[:1]] + [tm.cmp('eq', d, tm.ZERO) for d in deltas[1:]]
                script = enc.script(A_, [tm.cmp('ne', res, res0)])
                chk.add(framework.Ob('%s:result-independent-of-double-precision-intermediates' % tag, 'prop', script, 'unsat',
                                     dict(obligation=tag, narrowed_values=len(rec.narrow), functions=sorted(set(f[-50:] for f, _ in rec.narrow))[:3]), rp_,
                                     'precision:%s:%s:narrowing' % (name, meth), [fn_], 30, family='type-purity'))
            else:
                chk.paths_clean('%s:no-double-precision-intermediate' % tag, [], key='precision:%s:%s:narrowing' % (name, meth), family='type-purity')
    ex.snap_mode = 'lenient'
    return skipped


def add_type_purity(chk, prefixes, only=None):
    """called at the end of the formula checks C01-C08/C20: the long double instantiation of the evaluators of THEIR solutions may not
    pass through double (a narrowed intermediate or a double-image constant makes the long double result differ from the formula by far
    more than its roundoff, i.e. the evaluator no longer returns the value the property describes)"""
    names = [n for n in COVERED if n.startswith(tuple(prefixes))]
    w = chk.world()
    w.models.callback_hook = c15.callback_hook
    chk.assumptions.append('long double slice of the same evaluators: no double-precision intermediate or double-rounded constant (perturbation model of narrowing, as in C09)')
    skipped = long_double_slices(chk, w, names, only)
    if skipped:
        chk.notes.append('type purity skipped for the path bound: %r' % skipped[:5])


def body(chk):
    w = chk.world()
    w.models.callback_hook = c15.callback_hook
    chk.assumptions += ['formula layer of both instantiations is C01-C08 (run on double and long double)',
                        'type purity as a perturbation model: in the long double slice every value that passes through double (fptrunc x86_fp80->double of a non-representable value) is multiplied by (1+delta), delta free',
                        'type-relative constant snapping: a long double constant must be the 64-bit rounding of a simple rational (denominator <= 2^20 or <= 12 decimal digits)',
                        'definedness in the real model: admissibility => every denominator != 0, every sqrt/log/fractional-pow argument in its domain',
                        'NOT decided: the quantitative bound (small multiple of unit roundoff) on the evaluation error of the compiled code and of glibc libm; overflow; fast-math style compiler flags']
    chk.bounds = dict(solutions=len(COVERED), note='each evaluator of each covered solution, long double instantiation; arguments and parameters symbolic')
    skipped = long_double_slices(chk, w, COVERED)
    chk.extra_cov['skipped_for_path_bound'] = skipped
    # ---- 3: pi initialisers use the libm function of the instantiation's type
    calls = []

    def libm_hook(ex_, f, base, a, inst):
        calls.append((ex_.cur_fn, base))
        return None
    w.models.libm_hook = libm_hook
    try:
        w.ex.init_state()
    finally:
        w.models.libm_hook = None
    by_global = {}
    for mod, data in w.prog.modules.items():
        g = data['globals'].get('llvm.global_ctors')
        if not g:
            continue
        ents = g.get('init', [])
        # entries come in triples: priority, function, associated data (the global being initialised)
        fns = [e['val'] for e in ents if e.get('val', {}).get('k') == 'fn']
        gls = [e['val'] for e in ents if e.get('val', {}).get('k') == 'g']
        for f_, g_ in zip(fns, gls):
            by_global[w.prog.resolve_fn(mod, f_['name'])] = g_['name']
    for fn_, base in calls:
        gname = by_global.get(fn_)
        if gname is None:
            continue
        is_ld = 'Ie' in gname
        ok = (base.endswith('l') and base[:-1] in ('acos', 'atan')) if is_ld else base in ('acos', 'atan')
        chk.paths_clean('pi-initialiser:%s:uses-%s' % (w.models.demangled(gname), 'acosl/atanl' if is_ld else 'acos/atan'), [] if ok else [tm.TRUE], key='pi:%s' % gname, family='pi',
                        sample=dict(obligation='initialiser of %s calls %s' % (w.models.demangled(gname), base)))
    # ---- 4: definedness (real model) of every evaluator term collected from the C01-C08 builders
    definedness(chk, w)
    chk.solve_all()


class Collector(object):
    """stands in for a Check while the C01-C08 builders run: records (name, library term, assumptions)"""
    def __init__(self, chk):
        self.items = []
        self.chk = chk
        self.functions = set()
        self.seed = chk.seed
        self.tier = 'quick'
        self.scratch = chk.scratch
        self.pid = chk.pid
        self.qtimeout = 5
        self.obs = []
        self.infra = []
        self.notes = []
        self.bounds = {}
        self.assumptions = []
        self.validation = dict(points=0, mismatches=0)
        self.extra_cov = {}

    def identity(self, name, lib, ref, assumptions=(), **kw):
        self.items.append((name, lib, list(assumptions)))

    def paths_clean(self, *a, **k):
        pass

    def add(self, ob):
        return ob

    def world(self, **kw):
        return self.chk.world(**kw)

    def lib(self):
        return self.chk.lib()

    def classify(self, ob):
        pass

    def solve_all(self, *a, **k):
        pass

    def save_replay(self, *a, **k):
        return None

    def report_violation(self, *a, **k):
        pass


def definedness(chk, w):
    import c02
    import c03
    col = Collector(chk)
    c02.flow_family(col, w, c02.FAMILY, None, None, scalars=('double',))
    c02.flow_family(col, w, {k: v for k, v in c03.FAMILY.items() if k.startswith('navierstokes')}, c03.viscous_of, None, scalars=('double',))
    # the other families, through their own builders (validation against the real library is switched off for the collector)
    import c04
    import c06
    import c05_fans
    import pde as _pde
    saved = _pde.validate_terms
    _pde.validate_terms = lambda *a, **k: None
    try:
        c04.body(col)
        c06.body(col)
        c05_fans.build(col, w, [])
    except Exception as e:
        chk.notes.append('definedness: a family builder failed under the collector: %r' % (e,))
    finally:
        _pde.validate_terms = saved
    # t=0 sections are instances of the three-argument evaluators (their admissibility is stated on the transient fields)
    col.items = [it for it in col.items if '<long double>' not in it[0] and '(x,y)=' not in it[0]]
    seen = set()
    n = 0
    for name, lib, A_ in col.items:
        if 'eval_q' not in name and 'exact' not in name:
            continue
        enc = smt.Encoder()
        enc.enc(lib)
        for a in A_:
            enc.enc(a)
        dens = list(enc.side_nonzero)
        for d in dens:
            key = (d.id, tuple(a.id for a in A_))
            if key in seen:
                continue
            seen.add(key)
            e2 = smt.Encoder()
            script = e2.script(A_, [tm.cmp('eq', d, tm.ZERO)])
            n += 1
            chk.add(framework.Ob('defined:%s:denominator-%d-nonzero' % (name, n), 'prop', script, 'unsat', dict(obligation='denominator != 0 under admissibility', evaluator=name, denominator=tm.show(d, 4)),
                                 None, 'defined:%s' % name.split(':')[0], (), 30, family='definedness'))
    chk.extra_cov['definedness_queries'] = n


def sod_precision_replay(chk, api):
    """long double Sod density/momentum between fan and contact vs a 50-digit solution of the Riemann problem (Gamma = 1.4)"""
    def replay(ob, model):
        import replay as rp
        mp = rp.mp
        g = mp.mpf(14) / 10
        g = mp.mpf(tm.round_to(tm.Fraction(14, 10) if hasattr(tm, 'Fraction') else Fraction(14, 10), 53).numerator) / mp.mpf(tm.round_to(Fraction(14, 10), 53).denominator)   # the library's default is the double 1.4
        mu2 = (g - 1) / (g + 1)
        pl, pr, rl, rr = mp.mpf(1), mp.mpf('0.125'), mp.mpf(1), mp.mpf('0.125')
        cl, cr = mp.sqrt(g * pl / rl), mp.sqrt(g * pr / rr)
        f = lambda p: -2 * cl * (1 - (p / pl) ** ((g - 1) / (2 * g))) / (cr * (g - 1)) + (p / pr - 1) * mp.sqrt((1 - mu2) / (g * (mu2 + p / pr)))
        pm = mp.findroot(f, mp.mpf('0.3'))
        rhoml = (rl * pm / pl) ** (1 / g)
        vm = 2 * cl / (g - 1) * (1 - (pm / pl) ** ((g - 1) / (2 * g)))
        rhomr = rr * (pm + mu2 * pr) / (pr + mu2 * pm)
        wants = [rhoml if api.endswith('_rho') else rhoml * vm, rhomr if api.endswith('_rho') else rhomr * vm]
        src = ('#include <masa.h>\n#include <cstdio>\nusing namespace MASA;\nint main(){ masa_init<long double>("h","sod_1d");\n'
               ' printf("\\nR v0 %%.25Lg\\n",(long double)%s<long double>(0.0L,1.0L)); printf("R v1 %%.25Lg\\n",(long double)%s<long double>(1.2L,1.0L)); return 0;}\n') % (api, api)
        rc, out, err = chk.lib().run(src)
        res = rp.parse_results(out)
        if 'v0' not in res or 'v1' not in res:
            return dict(reproduced=False, path=None, detail='no value')
        rel = max(abs(res['v0'] - wants[0]) / abs(wants[0]), abs(res['v1'] - wants[1]) / abs(wants[1]))
        got, want = res['v0'], wants[0]
        # 64 units of the long double roundoff: the unchanged library is within ~8 at these points
        if rel > mp.mpf(2) ** -58:
            path = chk.save_replay(ob, dict(obligation=ob.name, library=str(got), reference=str(want), relative_error=mp.nstr(rel, 5)), src)
            return dict(reproduced=True, path=path, detail='sod_1d<long double> %s(0,1): relative error %s exceeds 64 long double roundoff units (double-limited bisection tolerance)' % (api, mp.nstr(rel, 4)))
        return dict(reproduced=False, path=None, detail='long double error %s within 64 roundoff units' % mp.nstr(rel, 4))
    return replay


def tm_snap_cache_clear():
    import exec as ex_
    ex_._snap_cache.clear()


def precision_replay(chk, name, api, sg, res, args, view, res_act=None):
    """long double result vs the exact value of the same formula at 50 digits: error beyond 2^-56 * M means the long double
    interface is limited to (about) double accuracy"""
    def replay(ob, model):
        import random, replay as rp
        if 'F' in sg or not isinstance(res, T):
            return dict(reproduced=False, path=None, detail='not replayable')
        rng = random.Random(chk.seed + 23)
        mp = rp.mp
        names = list(view.P)
        deltas = [t for t in tm.topo([res]) if t.op == 'sym' and t.p.startswith('delta#')]
        res0 = tm.subst([res], {d: tm.ZERO for d in deltas})[0] if deltas else res
        steps = [('init', 'long double', 'h', name)]
        envs = []
        allnames = names + [a.p for a in args if a.sort == 'R']
        cands = []
        for k in range(4):
            env = pde.rand_env(rng, allnames, [])
            # non-dyadic values so that products/quotients are not exact
            cands.append({n_: q + Fraction(1, 3 * (7 + i)) for i, (n_, q) in enumerate(sorted(env.items()))})
        if res_act is not None and res_act is not res0:
            # double-image constants: parameter sets at which the affected terms weigh most (sampled over six orders of magnitude)
            act0 = tm.subst([res_act], {d: tm.ZERO for d in deltas})[0] if deltas else res_act
            scored = []
            for k in range(250):
                env = {n_: Fraction(2) ** rng.randint(-10, 10) * Fraction(rng.randint(17, 63), 32) + Fraction(1, 3 * (7 + i)) for i, n_ in enumerate(sorted(allnames))}
                e = {n_: mp.mpf(q.numerator) / mp.mpf(q.denominator) for n_, q in env.items()}
                for a in args:
                    if a.sort != 'R':
                        e[a.p] = 1
                try:
                    va, vb = tm.evalf([res0, act0], e, mp)
                    M_ = pde.magnitude(res0, e) + abs(va)
                    if mp.isfinite(va) and mp.isfinite(vb) and M_ > 0:
                        scored.append((abs(va - vb) / M_, k, env))
                except Exception:
                    pass
            scored.sort(key=lambda x: -x[0])
            cands += [env for _, _, env in scored[:4]]
        if deltas:
            # narrowing to double somewhere inside: parameter sets/points at which the narrowed intermediates weigh most in the result
            # (first-order effect of a relative perturbation 2^-54 of every narrowed value; moderate magnitudes only, so that the
            # long double roundoff of the formula itself -- e.g. of a trigonometric argument -- stays far below the 2^-56 limit)
            pert = tm.subst([res], {d: tm.const(Fraction(1, 2 ** 54)) for d in deltas})[0]
            scored = []
            for k in range(250):
                env = {n_: Fraction(2) ** rng.randint(-2, 2) * Fraction(rng.randint(17, 63), 32) + Fraction(1, 3 * (7 + i)) for i, n_ in enumerate(sorted(allnames))}
                e = {n_: mp.mpf(q.numerator) / mp.mpf(q.denominator) for n_, q in env.items()}
                for a in args:
                    if a.sort != 'R':
                        e[a.p] = 1
                try:
                    va, vb = tm.evalf([res0, pert], e, mp)
                    M_ = pde.magnitude(res0, e) + abs(va)
                    if mp.isfinite(va) and mp.isfinite(vb) and M_ > 0:
                        scored.append((abs(va - vb) / M_, k, env))
                except Exception:
                    pass
            scored.sort(key=lambda x: -x[0])
            cands += [env for _, _, env in scored[:12]]
        for k, env in enumerate(cands):
            envs.append(env)
            for n_ in names:
                steps.append(('set', 'long double', n_, env[n_]))
            a = [env[x.p] if x.sort == 'R' else 1 for x in args]
            steps.append(('eval', 'long double', api, a, 'p%d' % k))
        src = rp.driver_source(steps)
        rc, out, err = chk.lib().run(src)
        got = rp.parse_results(out)
        worst = 0
        for k, env in enumerate(envs):
            # the library sees long-double roundings of the literals: evaluate the exact formula at exactly those values
            e = {n_: mp.mpf(tm.round_to(q, 64).numerator) / mp.mpf(tm.round_to(q, 64).denominator) for n_, q in env.items()}
            for a in args:
                if a.sort != 'R':
                    e[a.p] = 1
            try:
                exact = tm.evalf([res0], e, mp)[0]
                M = pde.magnitude(res0, e) + abs(exact)
            except Exception:
                continue
            g = got.get('p%d' % k)
            if g is None or not mp.isfinite(g) or M == 0:
                continue
            worst = max(worst, abs(g - exact) / M)
        lim = mp.mpf(2) ** -56
        if worst > lim:
            path = chk.save_replay(ob, dict(obligation=ob.name, relative_error=mp.nstr(worst, 5), limit='2^-56', api=api, solution=name), src)
            return dict(reproduced=True, path=path, detail='%s<long double> %s: relative error %s of the long double result exceeds 2^-56 (double-limited)' % (name, api, mp.nstr(worst, 4)))
        return dict(reproduced=False, path=None, detail='long double error %s within 2^-56 of the scale' % mp.nstr(worst, 4))
    return replay


if __name__ == '__main__':
    framework.main('C09', body)
