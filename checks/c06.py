"""C06 Reacting Euler (N/N2): species, momentum and energy sources close consistently."""
import sys, os
sys.path.insert(0, os.path.join(os.path.dirname(os.path.abspath(__file__)), '..', 'mv'))
sys.path.insert(0, os.path.join(os.path.dirname(os.path.abspath(__file__)), '..'))
import terms as tm
from terms import T
import framework
import pde
from pde import X
from spec import operators

KEQ = tm.sym('K_eq_callback', 'P')


def callback_hook(ex, cv, args, ins):
    ex.st.event('callback', cv.p, tuple(args))
    return tm.uf('K_eq', *args)


def make_replay(chk, v, meth, lib, ref, callback):
    """replay with a concrete positive K_eq(T) = 0.5 + T*T/7 (C++ and mpmath agree on it)"""
    def replay(ob, model):
        import random, replay as rp
        rng = random.Random(chk.seed + 5)
        cxx = rp.SCALAR_CXX[v.scalar]
        names = list(v.P)
        api = pde.api_name(meth)
        lines = ['masa_init<Scalar>("h","%s");' % v.name]
        envs = []
        cbs = []
        for k in range(5):
            env = pde.rand_env(rng, names, ['x'])
            if k == 3:
                env['x'] = envs[2]['x']     # same point, other parameters: a value remembered per point would show
            if k == 4:
                env = dict(envs[3])         # same point and parameters (same temperature), ANOTHER callback: a value remembered per temperature would show
            envs.append(env)
            cbs.append('keq2' if k == 4 else 'keq')
            for n in names:
                lines.append('masa_set_param<Scalar>("%s",%s);' % (n, rp.lit(env[n], v.scalar)))
            a = '(Scalar)%s' % rp.lit(env['x'], v.scalar) + ((',' + cbs[-1]) if callback else '')
            lines.append('printf("R p%d %%.25Lg\\n",(long double)%s<Scalar>(%s));' % (k, api, a))
        src = ('#include <masa.h>\n#include <cstdio>\nusing namespace MASA;\ntypedef %s Scalar;\nScalar keq(Scalar t){return (Scalar)0.5 + t*t/(Scalar)7;}\nScalar keq2(Scalar t){return (Scalar)1.25 + t/(Scalar)3;}\nint main(){\n%s\n return 0;}\n') % (cxx, '\n'.join(lines))
        rc, out, err = chk.lib().run(src)
        res = rp.parse_results(out)
        for k, env in enumerate(envs):
            ufs = {'K_eq': (lambda t: rp.mp.mpf('1.25') + t / 3)} if cbs[k] == 'keq2' else {'K_eq': (lambda t: rp.mp.mpf('0.5') + t * t / 7)}
            e = {n: rp.mp.mpf(q.numerator) / rp.mp.mpf(q.denominator) for n, q in env.items()}
            rv = tm.evalf([ref], e, rp.mp, ufs)[0]
            try:
                lv = tm.evalf([lib], e, rp.mp, ufs)[0]
            except KeyError:
                lv = None           # the library term mentions remembered state no API call sets
            got = res.get('p%d' % k)
            if got is None or not rp.mp.isfinite(got) or not rp.mp.isfinite(rv):
                continue
            M = abs(rv) + abs(lv or 0) + pde.magnitude_uf(ref, e, ufs)
            chk.validation['points'] += 1
            if lv is not None and abs(got - lv) > rp.mp.mpf('1e-9') * M:
                chk.validation['mismatches'] += 1
                chk.infra.append('ENCODING MISMATCH %s %s: term=%s library=%s' % (v.name, meth, rp.mp.nstr(lv, 20), rp.mp.nstr(got, 20)))
            if abs(got - rv) > rp.mp.mpf('1e-6') * M:
                path = chk.save_replay(ob, dict(obligation=ob.name, env={n: str(q) for n, q in env.items()}, library=str(got), reference=str(rv), K_eq='0.5+T^2/7'), src)
                return dict(reproduced=True, path=path, detail='%s<%s> %s: library=%s reference=%s (K_eq(T)=0.5+T^2/7)' % (v.name, v.scalar, api, rp.mp.nstr(got, 17), rp.mp.nstr(rv, 17)))
        return dict(reproduced=False, path=None, detail='')
    return replay


def body(chk):
    w = chk.world()
    w.models.callback_hook = callback_hook
    chk.assumptions += ['real-arithmetic model of FP (formula layer)', 'user callback K_eq = uninterpreted function (every pure function of T at once), K_eq(T) > 0',
                        'pow(T,eta) and exp(.) opaque atoms with sound axioms; sin/cos circle abstraction', 'admissibility: T>0, rho_N>0, rho_N2>0, M_N != 0, L != 0, R != 0, theta_v != 0']
    chk.bounds = dict(values='unbounded', callback='uninterpreted (all functions)', loops='none')
    for scalar in ('double', 'long double'):
        v = pde.SolView(chk, w, 'euler_chem_1d', scalar)
        P = v.P
        f = dict(rho_N=v.term('eval_exact_rho_N', [X]), rho_N2=v.term('eval_exact_rho_N2', [X]), u=v.term('eval_exact_u', [X]), T=v.term('eval_exact_t', [X]))
        rho = v.term('eval_exact_rho', [X])
        Keq = tm.uf('K_eq', f['T'])
        res = operators.reacting_euler_1d(f, P, X, Keq)
        alpha = tm.fn('exp', P['theta_v_N2'] / f['T'])
        A = [tm.cmp('gt', f['T'], tm.ZERO), tm.cmp('gt', f['rho_N'], tm.ZERO), tm.cmp('gt', f['rho_N2'], tm.ZERO), tm.cmp('ne', P['M_N'], tm.ZERO),
             tm.cmp('ne', P['L'], tm.ZERO), tm.cmp('ne', P['R'], tm.ZERO), tm.cmp('gt', Keq, tm.ZERO), tm.cmp('ne', alpha, tm.ONE)]
        tag = 'euler_chem_1d<%s>' % scalar
        chk.identity('%s:exact_rho=rho_N+rho_N2' % tag, rho, f['rho_N'] + f['rho_N2'], A, key='euler_chem_1d:exact_rho')
        libs = {}
        for eq, meth, cb in (('rho_N', 'eval_q_rho_N', True), ('rho_N2', 'eval_q_rho_N2', True), ('rho_u', 'eval_q_rho_u', False), ('rho_e', 'eval_q_rho_e', False)):
            lib = v.term(meth, [X], extra='PF%s%sE' % ('d' if scalar == 'double' else 'e', 'd' if scalar == 'double' else 'e') if cb else '', extra_args=[KEQ] if cb else [])
            libs[eq] = lib
            chk.identity('%s:%s' % (tag, meth), lib, res[eq], A, key='euler_chem_1d:%s' % meth, replay=make_replay(chk, v, meth, lib, res[eq], cb))
            if cb:
                # the callback is invoked exactly once per path, on the exact temperature
                bad = []
                for p in v.last_paths:
                    calls = [e for e in p['st'].events if e[0] == 'callback']
                    if len(calls) != 1 or not (calls[0][2][0] is f['T'] or tm.rat_equal(calls[0][2][0], f['T'])):
                        bad.append(pde.pc_term(p['pc']))
                chk.paths_clean('%s:%s:callback-evaluated-once-at-exact-T' % (tag, meth), bad, key='euler_chem_1d:%s:callback' % meth)
        chk.identity('%s:Q_rho_N+Q_rho_N2=d(rho u)/dx-for-every-K_eq' % tag, libs['rho_N'] + libs['rho_N2'], res['mass'], A, key='euler_chem_1d:species-sum',
                     replay=make_replay(chk, v, 'eval_q_rho_N', libs['rho_N'], res['rho_N'], True))
    import c09
    c09.add_type_purity(chk, ['euler_chem'])
    chk.solve_all()


if __name__ == '__main__':
    framework.main('C06', body)
