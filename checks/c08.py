"""C08 Closed-form exact solutions: Sod shock tube and conjugate-normal posterior."""
import sys, os, re
sys.path.insert(0, os.path.join(os.path.dirname(os.path.abspath(__file__)), '..', 'mv'))
sys.path.insert(0, os.path.join(os.path.dirname(os.path.abspath(__file__)), '..'))
from fractions import Fraction
import terms as tm
from terms import T, D
import framework
import pde
import smt
import sol as S
import models
from exec import Ptr, ExecError, pc_term, merge_paths
from pde import X, TT

# ------------------------------------------------------------------------------------------------
# cp_normal

def split_exp(term):
    """term = coef * exp(arg) or exp(arg) / coef  ->  (coef_as_multiplier, arg) ; None if not of that shape"""
    if term.op == 'fn' and term.p == 'exp':
        return tm.ONE, term.a[0]
    if term.op == 'mul':
        for i in (0, 1):
            e = term.a[i]
            if e.op == 'fn' and e.p == 'exp':
                return term.a[1 - i], e.a[0]
    if term.op == 'div' and term.a[0].op == 'fn' and term.a[0].p == 'exp':
        return tm.div(tm.ONE, term.a[1]), term.a[0].a[0]
    return None


def set_data(w, view, n):
    """data vector of length n with symbolic contents d0..d(n-1)"""
    st = view.st.clone()
    a = view.sol['vecs']['vec_data'][1]
    v = st.side_mut((a.rid, a.off))
    v.n = n
    st.mut(v.buf).size = n * v.es
    ds = [tm.sym('d%d' % i) for i in range(n)]
    for i in range(n):
        st.mem[(v.buf, i * v.es)] = (v.es, ds[i])
    return st, ds


def cp_replay(chk, scalar, api, arg, expr_py, why, n=3):
    """replay on the real library with data d_i = 0.25 + 1.25 i, m=0.3, sigma=1.7, sigma_d=0.9, x=0.4"""
    def replay(ob, model):
        import replay as rp
        cxx = rp.SCALAR_CXX[scalar]
        mp = rp.mp
        data = [mp.mpf('0.25') + mp.mpf('1.25') * i for i in range(n)]
        m, s, sd, x = mp.mpf('0.3'), mp.mpf('1.7'), mp.mpf('0.9'), mp.mpf('0.4')
        xbar = sum(data) / len(data)
        sp2 = 1 / (1 / s ** 2 + len(data) / sd ** 2)
        mpost = sp2 * (m / s ** 2 + len(data) * xbar / sd ** 2)
        want = expr_py(mp, dict(m=m, s=s, sd=sd, x=x, n=len(data), xbar=xbar, sp2=sp2, mpost=mpost))
        lines = ['masa_init<Scalar>("h","cp_normal"); masa_set_param<Scalar>("m",(Scalar)0.3L); masa_set_param<Scalar>("sigma",(Scalar)1.7L); masa_set_param<Scalar>("sigma_d",(Scalar)0.9L);',
                 '{ std::vector<Scalar> d(%d); for(int i=0;i<%d;i++) d[i]=(Scalar)0.25L+(Scalar)1.25L*i; masa_set_vec<Scalar>("vec_data",d); }' % (n, n),
                 'printf("\\nR v %%.25Lg\\n",(long double)%s<Scalar>(%s));' % (api, arg)]
        src = '#include <masa.h>\n#include <cstdio>\n#include <vector>\nusing namespace MASA;\ntypedef %s Scalar;\nint main(){\n%s\n return 0;}\n' % (cxx, '\n'.join(lines))
        rc, out, err = chk.lib().run(src)
        got = rp.parse_results(out).get('v')
        if got is None or abs(got - want) > mp.mpf('1e-9') * (abs(want) + abs(got) + mp.mpf('1e-300')):
            path = chk.save_replay(ob, dict(obligation=ob.name, library=str(got), reference=str(want), why=why, stdout=out[-800:]), src)
            return dict(reproduced=True, path=path, detail='cp_normal<%s> %s(%s): library=%s reference=%s (%s)' % (scalar, api, arg, mp.nstr(got, 17) if got is not None else None, mp.nstr(want, 17), why))
        return dict(reproduced=False, path=None, detail='real library agrees at the replay point')
    return replay


def cp_normal(chk, w):
    nmax = 3 if chk.tier == 'quick' else 6
    kmax = 20
    chk.bounds.update(cp_normal_data_length='1..%d (symbolic contents)' % nmax, cp_normal_moment_orders='0..%d' % kmax)
    pi = tm.PI
    for scalar in ('double', 'long double'):
        v = pde.SolView(chk, w, 'cp_normal', scalar)
        P = v.P
        m, s, sd = P['m'], P['sigma'], P['sigma_d']
        A = [tm.cmp('gt', s, tm.ZERO), tm.cmp('gt', sd, tm.ZERO)]
        ex = w.ex
        tag = 'cp_normal<%s>' % scalar

        def term_of(meth, args, st, extra=''):
            fn = w.method(v.sol, meth, len([a for a in args if not isinstance(a, int) and a.sort == 'R']), extra) if extra == '' else w.method(v.sol, meth, 0, extra)
            paths = ex.explore(st, lambda e: e.call(fn, [v.sol['ptr']] + list(args)), 64)
            for p in paths:
                if p['error'] is not None or p['terminal'] is not None:
                    raise ExecError('%s: %s' % (meth, p['error'] or p['terminal']))
            chk.functions.add(fn)
            return merge_paths(paths)
        # prior: normalised normal density N(m, sigma^2)
        prior = term_of('eval_prior', [X], v.st)
        want = tm.fn('exp', -(X - m) * (X - m) / (2 * s * s)) / tm.fn('sqrt', 2 * pi * s * s)
        chk.identity('%s:prior=N(m,sigma^2)' % tag, prior, want, A, key='cp_normal:prior',
                     replay=cp_replay(chk, scalar, 'masa_eval_prior', '(Scalar)0.4L', lambda mp, e: mp.exp(-(e['x'] - e['m']) ** 2 / (2 * e['s'] ** 2)) / mp.sqrt(2 * mp.pi * e['s'] ** 2), 'prior density'))
        sp0 = split_exp(prior)
        for n in range(1, nmax + 1):
            st, ds = set_data(w, v, n)
            xbar = sum(ds, tm.ZERO) / n
            sp2 = 1 / (1 / (s * s) + n / (sd * sd))
            mpost = sp2 * (m / (s * s) + n * xbar / (sd * sd))
            post = term_of('eval_posterior', [X], st)
            lik = term_of('eval_likelyhood', [X], st)
            loglik = term_of('eval_loglikelyhood', [X], st)
            pm_ = term_of('eval_post_mean', [], st)
            pv_ = term_of('eval_post_var', [], st)
            wantp = tm.fn('exp', -(X - mpost) * (X - mpost) / (2 * sp2)) / tm.fn('sqrt', 2 * pi * sp2)
            chk.identity('%s:n=%d:posterior=N(m_p,sigma_p^2)' % (tag, n), post, wantp, A, key='cp_normal:posterior',
                         replay=cp_replay(chk, scalar, 'masa_eval_posterior', '(Scalar)0.4L', lambda mp, e: mp.exp(-(e['x'] - e['mpost']) ** 2 / (2 * e['sp2'])) / mp.sqrt(2 * mp.pi * e['sp2']), 'posterior density', n))
            chk.identity('%s:n=%d:posterior-mean' % (tag, n), pm_, mpost, A, key='cp_normal:post_mean',
                         replay=cp_replay(chk, scalar, 'masa_eval_posterior_mean', '', lambda mp, e: e['mpost'], 'posterior mean for the CURRENT data vector', n))
            chk.identity('%s:n=%d:posterior-variance' % (tag, n), pv_, sp2, A, key='cp_normal:post_var',
                         replay=cp_replay(chk, scalar, 'masa_eval_posterior_variance', '', lambda mp, e: e['sp2'], 'posterior variance', n))
            sl = split_exp(lik)
            spp = split_exp(post)
            ok_shape = sl is not None and spp is not None and sp0 is not None
            chk.paths_clean('%s:n=%d:densities-have-the-form-c*exp(q(x))' % (tag, n), [] if ok_shape else [tm.TRUE], key='cp_normal:shape')
            if ok_shape:
                # loglikelihood = log(likelihood): the exponent of the likelihood (its prefactor is 1)
                chk.identity('%s:n=%d:loglikelihood=log(likelihood)' % (tag, n), loglik, sl[1], A + [tm.cmp('eq', sl[0], tm.ONE)], key='cp_normal:loglik', witnesses=False,
                             replay=cp_replay(chk, scalar, 'masa_eval_loglikelyhood', '(Scalar)0.4L', lambda mp, e: -(e['n'] / (2 * e['sd'] ** 2)) * (e['x'] - e['xbar']) ** 2, 'log-likelihood', n))
                chk.identity('%s:n=%d:likelihood-prefactor-is-1' % (tag, n), sl[0], tm.ONE, A, key='cp_normal:lik', witnesses=False)
                # posterior proportional to likelihood * prior: d/dx of the exponents
                chk.identity('%s:n=%d:posterior~likelihood*prior' % (tag, n), D(spp[1], X), D(sl[1], X) + D(sp0[1], X), A, key='cp_normal:proportional',
                             replay=cp_replay(chk, scalar, 'masa_eval_posterior', '(Scalar)0.4L', lambda mp, e: mp.exp(-(e['x'] - e['mpost']) ** 2 / (2 * e['sp2'])) / mp.sqrt(2 * mp.pi * e['sp2']), 'posterior ~ likelihood*prior', n))
        # central moments of N(., sigma^2): 0 for odd k, sigma^k (k-1)!! for even k
        fn = w.method(v.sol, 'eval_cen_mom', 0, 'i')
        chk.functions.add(fn)
        for k in range(0, kmax + 1):
            paths = ex.explore(v.st, lambda e: e.call(fn, [v.sol['ptr'], k]), 8)
            if len(paths) != 1 or paths[0]['error'] is not None:
                chk.paths_clean('%s:central-moment:k=%d:executes' % (tag, k), [tm.TRUE], key='cp_normal:cen_mom')
                continue
            lib = paths[0]['ret']
            df = 1
            for j in range(k - 1, 0, -2):
                df *= j
            want = tm.ZERO if k % 2 else tm.ipow(s, k) * df
            chk.identity('%s:central-moment:k=%d' % (tag, k), lib, want, A, key='cp_normal:cen_mom:k=%d' % k, witnesses=(k in (2, 4)),
                         replay=cp_replay(chk, scalar, 'masa_eval_central_moment', str(k), lambda mp, e, k=k, df=df: (0 if k % 2 else e['s'] ** k * df), 'central moment of order %d' % k))


# ------------------------------------------------------------------------------------------------
# Sod

def sod_fn(w, scalar, name):
    c = [n for n in w.prog.functions if re.search(r'sod_1d<%s>::%s\(' % (re.escape(scalar), name), w.models.demangled(n))]
    return c


def sod_bisection(chk, w0, scalar):
    """bounded unrolling of rtbis with func uninterpreted: at every return inside the loop the returned abscissa is the lower end of a
    bracket [r, r+dx] with func(r) <= 0 <= func(r+dx) and ( |dx| < xacc  or  |func(last midpoint)| < thresh )"""
    K = 3 if chk.tier == 'quick' else 5
    chk.bounds['sod_bisection_iterations_unrolled'] = K
    w = chk.world(extra=('-fno-inline',))          # keep func() a call so that it can be left uninterpreted
    rt = sod_fn(w, scalar, 'rtbis')[0]
    fc = sod_fn(w, scalar, 'func')[0]
    ex = w.ex
    st0, sol = w.find(scalar, 'sod_1d')
    calls = []

    def func_summary(e, args, inst):
        t = tm.uf('func', args[1] if isinstance(args[1], T) else tm.const(args[1]))
        e.st.event('func', args[1], t)
        return t
    ex.opaque[fc] = func_summary
    x1, x2, xacc = tm.sym('x1'), tm.sym('x2'), tm.sym('xacc')
    try:
        paths = ex.explore(st0, lambda e: e.call(rt, [sol['ptr'], x1, x2, xacc, K]), 4096)
    finally:
        ex.opaque.pop(fc, None)
    chk.functions.add(rt)
    eps = Fraction(1, 2 ** 52) if scalar == 'double' else Fraction(1, 2 ** 63)
    thresh = tm.const(5 * eps)
    n_ret = 0
    for idx, p in enumerate(paths):
        if p['error'] is not None:
            chk.paths_clean('sod<%s>:rtbis:path%d:executes' % (scalar, idx), [pc_term(p['pc'])], key='sod:rtbis')
            continue
        if p['terminal'] is not None:
            continue                     # root not bracketed: fatal error path (C16)
        r = p['ret']
        fcalls = [e for e in p['st'].events if e[0] == 'func']
        k = len(fcalls) - 2              # midpoints evaluated
        if tm.isc(r) and r.p == -1:
            continue                     # 'too many bisections' after K iterations: outside the bound
        n_ret += 1
        # dx_k = +-(x2-x1)/2^k, the sign chosen by rtbis from f = func(x1) < 0 : decided case by case so that no ite remains
        import sweep
        f1 = tm.uf('func', x1)
        cneg = tm.cmp('lt', f1, tm.ZERO)
        flast = fcalls[-1][2]
        # case split over every ite condition (initial sign, sign of each midpoint value) until no ite remains
        def cases(terms, lits):
            cur = [sweep.resolve_ites(t_, lits) for t_ in terms]
            pend = None
            for t_ in cur:
                for n_ in tm.topo([t_]):
                    if n_.op == 'ite':
                        pend = n_.a[0]
                        break
                if pend is not None:
                    break
            if pend is None:
                yield cur, lits
                return
            for val_ in (True, False):
                l2 = dict(lits)
                l2[pend] = val_
                for out in cases(cur, l2):
                    yield out
        pcl = [(c if b else tm.lnot(c)) for c, b in p['pc']]
        for cur, lits in cases([r, flast, cneg] + pcl, {}):
            rr_, fl, cn = cur[0], cur[1], cur[2]
            pcs_r = cur[3:]
            for neg in (True, False):
                dx = (x2 - x1) / (2 ** k) if neg else (x1 - x2) / (2 ** k)
                contract = tm.land(tm.cmp('le', tm.uf('func', rr_), tm.ZERO), tm.cmp('ge', tm.uf('func', rr_ + dx), tm.ZERO),
                                   tm.lor(tm.cmp('lt', tm.fn('fabs', dx), xacc), tm.cmp('lt', tm.fn('fabs', fl), thresh)))
                enc = smt.Encoder(pi_bounds=False)
                pcs = list(pcs_r) + [(c if v_ else tm.lnot(c)) for c, v_ in lits.items()] + [cn if neg else tm.lnot(cn)]
                script = enc.script(pcs + [tm.cmp('gt', xacc, tm.ZERO)], [tm.lnot(contract)], tactic='(check-sat)')
                chk.add(framework.Ob('sod<%s>:rtbis:return-after-%d-midpoint(s):path%d:case[%s%s]:bracket-and-tolerance' % (scalar, k, idx, ''.join('T' if a else 'F' for a in lits.values()), 'n' if neg else 'p'),
                                     'prop', script, 'unsat', dict(obligation='rtbis contract', iterations=k, returned=tm.show(rr_, 4), pc=[tm.show(c, 3) for c in pcs][:8]),
                                     sod_replay(chk, scalar), 'sod:rtbis:contract', [rt], family='sod-bisection'))
    if n_ret == 0:
        chk.infra.append('sod rtbis: no returning path explored')


_sod_replay_cache = {}


def sod_replay(chk, scalar):
    def replay(ob, model):
        if scalar in _sod_replay_cache:
            return dict(_sod_replay_cache[scalar])
        res = _replay(ob, model)
        _sod_replay_cache[scalar] = res
        return dict(res)

    def _replay(ob, model):
        # (1) defaults: the bisection result must be a root of func to working precision (Gamma=1.4);
        # (2) history: Gamma := 5/3, evaluate once (mu still stale), then mu := (Gamma-1)/(Gamma+1) = 1/4, evaluate: the value must be the
        #     exact solution for the CURRENT parameters (a cached root keyed on a subset of the parameters shows here)
        import replay as rp
        mp = rp.mp
        cxx = rp.SCALAR_CXX[scalar]

        def exact(g):
            mu2 = (g - 1) / (g + 1)
            pl, pr, rl, rr = mp.mpf(1), mp.mpf('0.125'), mp.mpf(1), mp.mpf('0.125')
            cl, cr = mp.sqrt(g * pl / rl), mp.sqrt(g * pr / rr)
            f = lambda p: -2 * cl * (1 - (p / pl) ** ((g - 1) / (2 * g))) / (cr * (g - 1)) + (p / pr - 1) * mp.sqrt((1 - mu2) / (g * (mu2 + p / pr)))
            pm = mp.findroot(f, mp.mpf('0.3'))
            exact.vm = 2 * cl / (g - 1) * (1 - (pm / pl) ** ((g - 1) / (2 * g)))
            return (rl * pm / pl) ** (1 / g), pm
        r14, pm14 = exact(mp.mpf('1.4'))
        r53, pm53 = exact(mp.mpf(5) / 3)
        vm53 = exact.vm
        src = ('#include <masa.h>\n#include <cstdio>\nusing namespace MASA;\ntypedef %s Scalar;\nint main(){ masa_init<Scalar>("h","sod_1d");\n'
               ' printf("\\nR rho %%.25Lg\\n",(long double)masa_eval_source_rho<Scalar>((Scalar)0.0,(Scalar)1.0));\n'
               ' masa_init<Scalar>("g","sod_1d"); masa_set_param<Scalar>("Gamma",(Scalar)5/(Scalar)3); { volatile Scalar w_ = masa_eval_source_rho<Scalar>((Scalar)0.0,(Scalar)1.0); (void)w_; }\n'
               ' masa_set_param<Scalar>("mu",(Scalar)0.25); printf("R rho53 %%.25Lg\\n",(long double)masa_eval_source_rho<Scalar>((Scalar)0.0,(Scalar)1.0));\n'
               ' masa_init<Scalar>("k","sod_1d"); masa_set_param<Scalar>("Gamma",(Scalar)5/(Scalar)3); masa_set_param<Scalar>("mu",(Scalar)0.25);\n'
               ' printf("R mom53 %%.25Lg\\n",(long double)masa_eval_source_rho_u<Scalar>((Scalar)0.0,(Scalar)1.0));\n'
               ' masa_init<Scalar>("s","sod_1d"); { volatile Scalar w_ = masa_eval_source_rho<Scalar>((Scalar)0.0,(Scalar)1.0); w_ = masa_eval_source_rho_u<Scalar>((Scalar)0.0,(Scalar)1.0); (void)w_; }\n'
               ' masa_set_param<Scalar>("Gamma",(Scalar)5/(Scalar)3); masa_set_param<Scalar>("mu",(Scalar)0.25);\n'
               ' printf("R momstale %%.25Lg\\n",(long double)masa_eval_source_rho_u<Scalar>((Scalar)0.0,(Scalar)1.0)); return 0;}\n') % cxx
        rc, out, err = chk.lib().run(src)
        res = rp.parse_results(out)
        got, got53 = res.get('rho'), res.get('rho53')
        gotm = res.get('mom53')
        if got is None or abs(got - r14) > mp.mpf('1e-9'):
            path = chk.save_replay(ob, dict(obligation=ob.name, library=str(got), reference=str(r14), p_m=str(pm14), stdout=out[-500:]), src)
            return dict(reproduced=True, path=path, detail='sod_1d<%s>: density between fan and contact at (x=0,t=1) is %s, exact %s (p_m=%s): the bisection stopped before converging' % (
                scalar, mp.nstr(got, 15) if got is not None else None, mp.nstr(r14, 15), mp.nstr(pm14, 12)))
        if got53 is None or abs(got53 - r53) > mp.mpf('1e-9'):
            path = chk.save_replay(ob, dict(obligation=ob.name, library=str(got53), reference=str(r53), scenario='Gamma:=5/3; evaluate; mu:=1/4; evaluate', stdout=out[-500:]), src)
            return dict(reproduced=True, path=path, detail='sod_1d<%s>: after Gamma:=5/3, one evaluation, mu:=1/4 the density at (0,1) is %s, exact solution for the current parameters %s' % (
                scalar, mp.nstr(got53, 15), mp.nstr(r53, 15)))
        if gotm is None or abs(gotm - r53 * vm53) > mp.mpf('1e-9'):
            path = chk.save_replay(ob, dict(obligation=ob.name, library=str(gotm), reference=str(r53 * vm53), scenario='fresh handle; Gamma:=5/3; mu:=1/4; momentum evaluated FIRST', stdout=out[-500:]), src)
            return dict(reproduced=True, path=path, detail='sod_1d<%s>: on a fresh handle with Gamma:=5/3, mu:=1/4 the momentum at (0,1), evaluated before any density, is %s; exact solution for the current parameters %s' % (
                scalar, mp.nstr(gotm, 15) if gotm is not None else None, mp.nstr(r53 * vm53, 15)))
        gots = res.get('momstale')
        if gots is None or abs(gots - r53 * vm53) > mp.mpf('1e-9'):
            path = chk.save_replay(ob, dict(obligation=ob.name, library=str(gots), reference=str(r53 * vm53), scenario='density and momentum at Gamma=1.4; Gamma:=5/3; mu:=1/4; momentum only', stdout=out[-500:]), src)
            return dict(reproduced=True, path=path, detail='sod_1d<%s>: after evaluations at Gamma=1.4, then Gamma:=5/3, mu:=1/4, the momentum at (0,1) (no density evaluated in between) is %s; exact solution for the current parameters %s' % (
                scalar, mp.nstr(gots, 15) if gots is not None else None, mp.nstr(r53 * vm53, 15)))
        # (3) the whole wave structure at the default Gamma: both evaluators against the exact Riemann solution on a grid of x/t
        #     (every region, both sides of every front; points closer than 2e-3 to a front are skipped)
        g = mp.mpf('1.4')
        mu2 = (g - 1) / (g + 1)
        pl, pr, rl, rr = mp.mpf(1), mp.mpf('0.125'), mp.mpf(1), mp.mpf('0.125')
        cl = mp.sqrt(g * pl / rl)
        pm = pm14
        rhoml = rl * (pm / pl) ** (1 / g)
        vm = 2 * cl / (g - 1) * (1 - (pm / pl) ** ((g - 1) / (2 * g)))
        rhomr = rr * (pm + mu2 * pr) / (pr + mu2 * pm)
        vs = vm / (1 - rr / rhomr)
        tail = vm / (1 - mu2) - cl
        fronts = [-cl, tail, vm, vs]

        def exact_state(xi):
            if xi < -cl:
                return rl, mp.mpf(0)
            if xi < tail:
                u = (1 - mu2) * (xi + cl)
                return rl * (1 - (g - 1) / 2 * u / cl) ** (2 / (g - 1)), u
            if xi < vm:
                return rhoml, vm
            if xi < vs:
                return rhomr, vm
            return rr, mp.mpf(0)
        pts = []
        for t_ in ('0.5', '1', '2'):
            for k in range(91):
                xi = mp.mpf(-2) + mp.mpf(k) / 20
                if any(abs(xi - f_) < mp.mpf('2e-3') for f_ in fronts):
                    continue
                pts.append((xi * mp.mpf(t_), mp.mpf(t_), xi))
        body = ['masa_init<Scalar>("w","sod_1d");']
        for i, (x_, t_, xi) in enumerate(pts):
            body.append('printf("R r%d %%.25Lg\\nR m%d %%.25Lg\\n",(long double)masa_eval_source_rho<Scalar>((Scalar)%sL,(Scalar)%sL),(long double)masa_eval_source_rho_u<Scalar>((Scalar)%sL,(Scalar)%sL));'
                        % (i, i, mp.nstr(x_, 25), mp.nstr(t_, 25), mp.nstr(x_, 25), mp.nstr(t_, 25)))
        src3 = '#include <masa.h>\n#include <cstdio>\nusing namespace MASA;\ntypedef %s Scalar;\nint main(){\n%s\n return 0;}\n' % (cxx, '\n'.join(body))
        rc3, out3, _ = chk.lib().run(src3)
        res3 = rp.parse_results(out3)
        for i, (x_, t_, xi) in enumerate(pts):
            er, eu = exact_state(xi)
            gr, gm = res3.get('r%d' % i), res3.get('m%d' % i)
            if gr is None or gm is None or abs(gr - er) > mp.mpf('1e-9') or abs(gm - er * eu) > mp.mpf('1e-9'):
                path = chk.save_replay(ob, dict(obligation=ob.name, x=str(x_), t=str(t_), library_rho=str(gr), library_rho_u=str(gm), exact_rho=str(er), exact_rho_u=str(er * eu),
                                               fronts=[str(f_) for f_ in fronts]), src3)
                return dict(reproduced=True, path=path, detail='sod_1d<%s> at x/t=%s (t=%s): library rho=%s rho_u=%s, exact Riemann solution rho=%s rho_u=%s' % (
                    scalar, mp.nstr(xi, 6), mp.nstr(t_, 3), mp.nstr(gr, 12) if gr is not None else None, mp.nstr(gm, 12) if gm is not None else None, mp.nstr(er, 12), mp.nstr(er * eu, 12)))
        return dict(reproduced=False, path=None, detail='real library returns the converged state for the current parameters and the exact wave structure on the x/t grid')
    return replay


def sod_relations(chk, w0, scalar, gammas):
    """closed forms of eval_q_rho / eval_q_rho_u with rtbis summarised by the symbol p_m.
    The chain  func(p_m)=0  =>  v_m(rarefaction) = v_m(shock)  =>  Rankine-Hugoniot  is decided link by link:
      A. the library's func term == (shock-side velocity - rarefaction-side velocity)/c_r          (identity)
      B. Rankine-Hugoniot mass and momentum jumps for the library's rho_mr, v_s with the shock-side velocity (identities)
      C. every path of the evaluators returns the value of the wave region its path condition selects (identities),
         and the front speeds in the path conditions are -c_l, -v_t, v_m, v_s                       (identities)
      D. the fronts are ordered and density/velocity are continuous across head and tail of the fan."""
    w = chk.world(extra=('-fno-inline',))
    rt = sod_fn(w, scalar, 'rtbis')[0]
    fc = sod_fn(w, scalar, 'func')[0]
    ex = w.ex
    PM = tm.sym('p_m')
    def rt_summary(e, args, inst):
        # the root p_m is a root of func AS func EVALUATES IN THE STATE OF THIS CALL SITE (the members it reads -- c_l, c_r, p_l, ... -- are
        # whatever the calling evaluator has stored so far): the function is executed here on the symbol p_m and its term recorded
        e.st.event('rtbis-func', e.call(fc, [args[0], PM]))
        e.st.event('rtbis-args', tuple(args[1:5]))
        return PM
    ex.opaque[rt] = rt_summary
    try:
        v = pde.SolView(chk, w, 'sod_1d', scalar, cache_prefix='cache')      # members the evaluators do not (re)compute are arbitrary remembered values
        G, MU = v.P['Gamma'], v.P['mu']
        fq_rho = w.method(v.sol, 'eval_q_rho', 2)
        fq_ru = w.method(v.sol, 'eval_q_rho_u', 2)
        prho = ex.explore(v.st, lambda e: e.call(fq_rho, [v.sol['ptr'], X, TT]), 64)
        pru = ex.explore(v.st, lambda e: e.call(fq_ru, [v.sol['ptr'], X, TT]), 64)
        chk.functions.update([fq_rho, fq_ru, fc])
        stf = prho[0]['st']
        fpaths = ex.explore(stf, lambda e: e.call(fc, [v.sol['ptr'], PM]), 4)
        func_pm = fpaths[0]['ret']
    finally:
        ex.opaque.pop(rt, None)
    for gname, gval in gammas:
        if gval is not None:
            sub = {G: tm.const(gval), MU: tm.const((gval - 1) / (gval + 1))}
            Gm, MUm = tm.const(gval), tm.const((gval - 1) / (gval + 1))
            A0 = []
        else:
            sub = {}
            Gm, MUm = G, MU
            A0 = [tm.cmp('gt', G, tm.ONE), tm.cmp('eq', MU, (G - 1) / (G + 1))]
        S_ = lambda t: tm.subst([t], sub)[0] if sub else t
        pl, pr, rl, rr = tm.ONE, tm.const(Fraction(1, 8)), tm.ONE, tm.const(Fraction(1, 8))
        A = A0 + [tm.cmp('gt', TT, tm.ZERO), tm.cmp('gt', PM, pr), tm.cmp('lt', PM, pl)]
        cl = tm.fn('sqrt', Gm * pl / rl)
        cr = tm.fn('sqrt', Gm * pr / rr)
        W = tm.fn('pow', PM / pl, (Gm - 1) / (2 * Gm))
        vm = 2 * cl / (Gm - 1) * (1 - W)                                                    # rarefaction side (Riemann invariant)
        vshock = cr * (PM / pr - 1) * tm.fn('sqrt', (1 - MUm) / (Gm * (MUm + PM / pr)))      # shock side (Rankine-Hugoniot)
        rhomr = rr * (PM + MUm * pr) / (pr + MUm * PM)
        vs = vm / (1 - rr / rhomr)
        vt = cl - vm / (1 - MUm)
        rhoml = tm.fn('pow', rl * PM / pl, 1 / Gm)
        tag = 'sod<%s>:Gamma=%s' % (scalar, gname)
        fam = 'sod-relations'
        rp_ = sod_replay(chk, scalar)
        # A. func is the velocity mismatch across the contact
        chk.identity('%s:func(p)=(v_shock-v_rarefaction)/c_r' % tag, S_(func_pm), (vshock - vm) / cr, A, key='sod:func', family=fam, replay=rp_)
        # ... and the same for func as it evaluates at the rtbis call site of EACH evaluator (a member func reads that the evaluator did not
        # recompute from the current parameters is a remembered value: the root then belongs to another Gamma)
        for paths_, what_ in ((prho, 'rho'), (pru, 'rho_u')):
            seen_ = set()
            for p_ in paths_:
                for ev_ in p_['st'].events:
                    if ev_[0] == 'rtbis-func' and isinstance(ev_[1], T) and ev_[1].id not in seen_:
                        seen_.add(ev_[1].id)
                        chk.identity('%s:%s:func-at-the-rtbis-call-site#%d=(v_shock-v_rarefaction)/c_r' % (tag, what_, len(seen_)), S_(ev_[1]), (vshock - vm) / cr, A,
                                     key='sod:func:%s' % what_, family=fam, witnesses=False, replay=rp_)
            # the iteration cap passed at this call site lets the bracket [p_r, p_l] shrink below the tolerance passed with it (in this scalar type)
            short_ = []
            for p_ in paths_:
                for ev_ in p_['st'].events:
                    if ev_[0] == 'rtbis-args':
                        a_ = [x_.p if isinstance(x_, T) and tm.isc(x_) else x_ for x_ in ev_[1]]
                        if all(isinstance(x_, (int, Fraction)) for x_ in a_):
                            if a_[2] > 0 and abs(Fraction(a_[1]) - Fraction(a_[0])) / Fraction(2) ** int(a_[3]) >= a_[2]:
                                short_.append([float(x_) for x_ in a_])
                        else:
                            short_.append(['symbolic arguments'])
            chk.paths_clean('%s:%s:bisection-cap-reaches-the-tolerance' % (tag, what_), [tm.TRUE] if short_ else [], key='sod:cap:%s' % what_, family=fam,
                            sample=dict(obligation='rtbis(x1,x2,xacc,JMAX) at the call site', insufficient=short_[:2]), replay=rp_)
            chk.paths_clean('%s:%s:root-finder-called-with-func-in-a-known-state' % (tag, what_), [] if seen_ else [tm.TRUE], key='sod:func-site:%s' % what_, family=fam, replay=rp_)
        # B. Rankine-Hugoniot with V the shock-side velocity: V^2 given, v_s = V/(1-rho_r/rho_mr)
        V = tm.sym('V_shock')
        AV = A + [tm.cmp('eq', V * V, (cr * cr) * (PM / pr - 1) * (PM / pr - 1) * (1 - MUm) / (Gm * (MUm + PM / pr))), tm.cmp('ge', V, tm.ZERO)]
        if gval is None:
            AV.append(tm.cmp('eq', cr * cr, Gm * pr / rr))
        vsV = V / (1 - rr / rhomr)
        chk.identity('%s:RH-mass' % tag, rr * (0 - vsV), rhomr * (V - vsV), AV, key='sod:RH-mass', family=fam, witnesses=False)
        chk.identity('%s:RH-momentum' % tag, pr + rr * vsV * vsV, PM + rhomr * (V - vsV) * (V - vsV), AV, key='sod:RH-momentum', family=fam)
        # C. region values and front speeds of the library's paths
        fan_rho = lambda xi_: tm.fn('pow', rl * (-MUm * (xi_ / cl) + (1 - MUm)), 2 / (Gm - 1))
        fan_u = lambda xi_: (1 - MUm) * (xi_ + cl)
        xi = X / TT
        fronts = [-cl, -vt, vm, vs]
        import sweep, replay as rp
        mp = rp.mp
        gnum = gval if gval is not None else Fraction(7, 5)
        env = {'p_m': mp.mpf('0.3'), 't': mp.mpf('0.7'), 'x': mp.mpf('0.1'), 'Gamma': mp.mpf(gnum.numerator) / gnum.denominator,
               'mu': mp.mpf((gnum - 1).numerator * (gnum + 1).denominator) / ((gnum - 1).denominator * (gnum + 1).numerator)}
        fvals = tm.evalf([f_ * TT for f_ in fronts], env, mp)
        rvals = [(rl, tm.ZERO), (fan_rho(xi), fan_u(xi)), (rhoml, vm), (rhomr, vm), (rr, tm.ZERO)]
        for paths, what in ((prho, 'rho'), (pru, 'rho_u')):
            covered = {}
            for pi_, p in enumerate(paths):
                if p['error'] is not None or p['terminal'] is not None:
                    chk.paths_clean('%s:%s:executes' % (tag, what), [pc_term(p['pc'])], key='sod:exec', family=fam)
                    continue
                ret = S_(p['ret'])
                conds = []
                for c, b in p['pc']:
                    c = S_(c)
                    if c not in conds:
                        conds.append(c)
                for n_ in tm.topo([ret]):
                    if n_.op == 'ite' and n_.a[0] not in conds:
                        conds.append(n_.a[0])
                kof = {}
                shape_ok = True
                for c in conds:
                    cc = c.a[0] if c.op == 'not' else c
                    if cc.op not in ('lt', 'le') or not (cc.a[0] is X or cc.a[1] is X):
                        shape_ok = False
                        continue
                    rhs = cc.a[0] if cc.a[1] is X else cc.a[1]
                    try:
                        val = tm.evalf([rhs], env, mp)[0]
                    except KeyError:
                        shape_ok = False        # the front position depends on a value remembered from an earlier call
                        continue
                    k = min(range(4), key=lambda q: abs(fvals[q] - val))
                    kof[c] = (k, cc.a[1] is X, c.op == 'not')          # (front index, 'front < x' orientation, negated)
                    chk.identity('%s:%s:path%d:front%d-speed' % (tag, what, pi_, k), rhs, fronts[k] * TT, A, key='sod:%s:front%d' % (what, k), family=fam, witnesses=False, replay=rp_)
                chk.paths_clean('%s:%s:path%d:conditions-compare-x-with-a-front-computed-from-the-current-parameters' % (tag, what, pi_), [] if shape_ok else [tm.TRUE], key='sod:%s:shape' % what, family=fam, replay=rp_)
                if not shape_ok:
                    continue
                pcl = dict((S_(c), b) for c, b in p['pc'])
                for r in range(5):
                    lits = {}
                    for c, (k, beyond, negd) in kof.items():
                        truth = (r > k) if beyond else (r <= k)      # lt(front*t, x): region index beyond the front ; le(x, front*t): not beyond
                        lits[c] = (not truth) if negd else truth
                    if any(lits.get(c) is not None and lits[c] != b for c, b in pcl.items()):
                        continue
                    covered[r] = covered.get(r, 0) + 1
                    val = sweep.resolve_ites(ret, lits)
                    rrho, ru = rvals[r]
                    want = rrho if what == 'rho' else rrho * ru
                    chk.identity('%s:%s:path%d:value-in-region-%d' % (tag, what, pi_, r), val, want, A, key='sod:%s:region%d' % (what, r), family=fam, witnesses=False, replay=rp_)
            chk.paths_clean('%s:%s:every-wave-region-is-produced-by-exactly-one-path' % (tag, what), [] if all(covered.get(r) == 1 for r in range(5)) else [tm.TRUE],
                            key='sod:%s:coverage' % what, family=fam, sample=dict(obligation='region coverage', covered=covered))
        # D. ordering of the fronts and continuity across the fan
        for nm, a, b in (('head<=tail', -cl, -vt), ('tail<=contact', -vt, vm), ('contact<=shock', vm, vs)):
            enc = smt.Encoder()
            script = enc.script(A, [tm.cmp('gt', a, b)])
            chk.add(framework.Ob('%s:fronts-ordered:%s' % (tag, nm), 'prop', script, 'unsat', dict(obligation='front ordering ' + nm), numeric_refutation(chk, [tm.cmp('gt', a, b)], A, gnum), 'sod:order:%s' % nm, (), family=fam))
        for nm_, l_, r_ in (('fan-head:rho-continuous', fan_rho(-cl), rl), ('fan-head:u-continuous', fan_u(-cl), tm.ZERO), ('fan-tail:u-continuous', fan_u(-vt), vm)) + \
                ((('fan-tail:rho-continuous', fan_rho(-vt), rhoml),) if gval is not None else ()):
            chk.identity('%s:%s' % (tag, nm_), l_, r_, A, key='sod:%s' % nm_.replace(':', '-'), family=fam, witnesses=False, timeout=60,
                         replay=numeric_refutation(chk, [tm.cmp('ne', l_, r_)], A, gnum, tol=True))


def numeric_refutation(chk, negated, assumptions, gnum, tol=False):
    """replay for relations between reference formulas only (front ordering, fan continuity): a solver model is accepted as a
    counterexample only if the negated relation really holds at some sample p_m in (p_r, p_l) when the fractional powers are
    evaluated exactly (50 digits); otherwise the `sat` is an artefact of the opaque pow atoms"""
    def replay(ob, model):
        import replay as rp
        mp = rp.mp
        hits = 0
        for k in range(1, 200):
            env = {'p_m': mp.mpf('0.125') + (mp.mpf(1) - mp.mpf('0.125')) * k / 200, 't': mp.mpf(1), 'x': mp.mpf('0.1'),
                   'Gamma': mp.mpf(gnum.numerator) / gnum.denominator, 'mu': mp.mpf((gnum - 1).numerator * (gnum + 1).denominator) / ((gnum - 1).denominator * (gnum + 1).numerator)}
            try:
                for c in negated:
                    if tol and c.op == 'not' and c.a[0].op == 'eq':
                        a_, b_ = tm.evalf(list(c.a[0].a), env, mp)
                        if abs(a_ - b_) > mp.mpf('1e-30') * (1 + abs(a_) + abs(b_)):
                            hits += 1
                    elif tm.evalf([c], env, mp)[0]:
                        hits += 1
            except Exception:
                continue
        if hits:
            return dict(reproduced=True, path=chk.save_replay(ob, dict(obligation=ob.name, sample_points_violating=hits)), detail='relation violated at %d of 199 sample values of p_m' % hits)
        return dict(reproduced=False, path=None, detail='relation holds at 199 sample values of p_m with exact powers (solver model is an artefact of the opaque pow atoms)')
    return replay


def body(chk):
    w = chk.world()
    chk.assumptions += ['real-arithmetic model of FP (formula layer)', 'Sod: rtbis summarised by a symbol p_m with func(p_m)=0 in the closed-form relations; func uninterpreted in the bisection contract',
                        'Sod left/right states as hard-coded by the library (rho_l=p_l=1, rho_r=p_r=1/8); mu tied to Gamma by init_var\'s relation mu=(Gamma-1)/(Gamma+1)',
                        'fractional powers are opaque atoms with v^q = base^p axioms: the full relation list is claimed for the listed rational Gamma values, the pow-free subset for symbolic Gamma>1',
                        'cp_normal: data vector non-empty; sigma, sigma_d > 0']
    chk.bounds = dict(values='unbounded symbolic')
    cp_normal(chk, w)
    gammas = [('7/5', Fraction(7, 5))] if chk.tier == 'quick' else [('7/5', Fraction(7, 5)), ('5/3', Fraction(5, 3)), ('2', Fraction(2)), ('3', Fraction(3)), ('6/5', Fraction(6, 5))]
    chk.bounds['sod_gamma_values'] = [g for g, _ in gammas]
    for scalar in ('double', 'long double'):
        sod_bisection(chk, w, scalar)
        sod_relations(chk, w, scalar, gammas)
    import c09
    c09.add_type_purity(chk, ['sod_1d', 'cp_normal'])
    chk.solve_all()


if __name__ == '__main__':
    framework.main('C08', body)
