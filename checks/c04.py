"""C04 Laplace and Burgers: source, field and PDE agree."""
import sys, os
sys.path.insert(0, os.path.join(os.path.dirname(os.path.abspath(__file__)), '..', 'mv'))
sys.path.insert(0, os.path.join(os.path.dirname(os.path.abspath(__file__)), '..'))
import terms as tm
from terms import D
import framework
import pde
from pde import X, Y, Z, TT


def body(chk):
    w = chk.world()
    chk.assumptions += ['real-arithmetic model of FP (formula layer, DESIGN.md §3.3); double temporaries inside the long double instantiation of burgers_equation are read as exact here (their effect is C09)',
                        'sin/cos abstracted to points on the unit circle (sound)', 'admissibility: L != 0']
    chk.bounds = dict(values='unbounded', loops='none')
    val = []
    for scalar in ('double', 'long double'):
        v = pde.SolView(chk, w, 'laplace_2d', scalar)
        phi = v.term('eval_exact_phi', [X, Y])
        f = v.term('eval_q_f', [X, Y])
        ref = D(D(phi, X), X) + D(D(phi, Y), Y)
        A = [tm.cmp('ne', v.P['Lx'], tm.ZERO)] if 'Lx' in v.P else []
        chk.identity('laplace_2d<%s>:eval_q_f' % scalar, f, ref, A, key='laplace_2d:eval_q_f',
                     replay=pde.make_replay(chk, v, 'eval_q_f', [X, Y], f, ref))
        val += [(v, 'eval_q_f', [X, Y], f), (v, 'eval_exact_phi', [X, Y], phi)]

        b = pde.SolView(chk, w, 'burgers_equation', scalar)
        A = [tm.cmp('ne', b.P['L'], tm.ZERO)]
        a3 = [X, Y, TT]
        u = b.term('eval_exact_u', a3)
        vv = b.term('eval_exact_v', a3)
        qu = b.term('eval_q_u', a3)
        qv = b.term('eval_q_v', a3)
        ru = D(u, TT) + D(u * u, X) + D(u * vv, Y)
        rv = D(vv, TT) + D(u * vv, X) + D(vv * vv, Y)
        chk.identity('burgers_equation<%s>:eval_q_u' % scalar, qu, ru, A, key='burgers_equation:eval_q_u',
                     replay=pde.make_replay(chk, b, 'eval_q_u', a3, qu, ru))
        chk.identity('burgers_equation<%s>:eval_q_v' % scalar, qv, rv, A, key='burgers_equation:eval_q_v',
                     replay=pde.make_replay(chk, b, 'eval_q_v', a3, qv, rv))
        val += [(b, 'eval_q_u', a3, qu), (b, 'eval_q_v', a3, qv), (b, 'eval_exact_u', a3, u), (b, 'eval_exact_v', a3, vv)]
        # two-argument exact fields = t-independent part (temporal amplitude set to zero) of the three-argument ones
        for f_, three, amp in (('u', u, 'u_t'), ('v', vv, 'v_t')):
            two = b.term('eval_exact_' + f_, [X, Y])
            part = tm.subst([three], {b.P[amp]: tm.ZERO})[0]
            chk.identity('burgers_equation<%s>:eval_exact_%s(x,y)=t-independent part' % (scalar, f_), two, part, A,
                         key='burgers_equation:eval_exact_%s:2arg' % f_,
                         replay=pde.make_replay(chk, b, 'eval_exact_' + f_, [X, Y], two, part))
            val.append((b, 'eval_exact_' + f_, [X, Y], two))
    import c09
    c09.add_type_purity(chk, ['laplace', 'burgers'])
    chk.solve_all()
    pde.validate_terms(chk, val, npoints=2 if chk.tier == 'quick' else 6)


if __name__ == '__main__':
    framework.main('C04', body)
