"""C11 Parameter store: set/get/init/purge/sanity behave as a per-handle map."""
import sys, os, json
sys.path.insert(0, os.path.join(os.path.dirname(os.path.abspath(__file__)), '..', 'mv'))
sys.path.insert(0, os.path.join(os.path.dirname(os.path.abspath(__file__)), '..'))
from fractions import Fraction
import terms as tm
from terms import T
import framework
import pde
import sol as S
import models
from exec import Ptr, ExecError, pc_term

FIXTURES = ('masa_test_function', 'masa_uninit')
MARKER = tm.const(Fraction(-1234567, 100))
NAME = tm.sym('NAME', 'S')
V = tm.sym('V')


def param_addrs(v):
    return {n: a for n, (i, a) in v.sol['params'].items() if isinstance(a, Ptr)}


def external_writes(p, st0):
    """stores of a path into memory that existed before the call (temporaries created by the call are ignored)"""
    return [w_ for w_ in p['st'].writes[len(st0.writes):] if w_[0] < st0.next_rid and p['st'].regions[w_[0]].kind not in ('alloca',)]


def matched_key(p):
    for c, b in p['pc']:
        if b and c.op == 'eq' and any(x is NAME for x in c.a):
            o = [x for x in c.a if x is not NAME][0]
            if o.op == 'str':
                return o.p
    return None


def store_replay(chk, scalar, name, script_lines, expect_lines, why):
    """concrete replay of a parameter-store script on the real library"""
    def replay(ob, model):
        import replay as rp
        cxx = rp.SCALAR_CXX[scalar]
        src = ('#include <masa.h>\n#include <cstdio>\n#include <vector>\n#include <string>\nusing namespace MASA;\ntypedef %s Scalar;\n'
               'int main(){ masa_init<Scalar>("h","%s");\n%s\n return 0;}\n') % (cxx, name, '\n'.join(script_lines))
        rc, out, err = chk.lib().run(src)
        missing = [e for e in expect_lines if e not in out]
        if missing or rc != 0:
            path = chk.save_replay(ob, dict(obligation=ob.name, expected=expect_lines, stdout=out[-2000:], rc=rc, why=why), src)
            return dict(reproduced=True, path=path, detail='%s<%s>: %s; real library output lacks %r' % (name, scalar, why, missing))
        return dict(reproduced=False, path=None, detail='real library follows the reference map on the replay script')
    return replay


def body(chk):
    w = chk.world()
    chk.assumptions += ['std::map/std::vector/std::string per contract models', 'one operation from the post-masa_init state with ALL registered parameters symbolic (arbitrary history of sets collapses to this state)',
                        'parameter name symbolic (ranges over every registered name and every other string)']
    nmax = 4 if chk.tier == 'quick' else 8
    chk.bounds = dict(values='unbounded symbolic', names='symbolic string: every registered name + any unregistered name', vector_length='0..%d' % nmax,
                      sanity_check='one parameter symbolic at a time, the others at their defaults')
    for scalar in ('double', 'long double'):
        st0c, sols, _ = w.catalogue(scalar)
        fs = 8 if scalar == 'double' else 16
        for s in sols:
            name = s['name']
            if name in FIXTURES:
                continue
            v = pde.ApiView(chk, w, name, scalar)
            ex = w.ex
            addrs = param_addrs(v)
            names = sorted(addrs)
            tag = '%s<%s>' % (name, scalar)
            # ---- registration sanity: addresses pairwise distinct and inside the object
            locs = [(a.rid, a.off) for a in addrs.values()]
            inside = all(a.rid == v.obj.rid and 0 <= a.off and a.off + (8 if scalar == 'double' else 10) <= v.sol['size'] for a in addrs.values())
            chk.paths_clean('%s:registered-addresses-distinct-and-inside' % tag, [] if (len(set(locs)) == len(locs) and inside) else [tm.TRUE],
                            key='%s:register' % name, family='register')
            # ---- set(NAME, V); get(NAME)
            fset = S.api_fn(w, 'masa_set_param', scalar, 'std::string, %s' % scalar)
            fget = S.api_fn(w, 'masa_get_param', scalar, 'std::string')

            def thunk(ex):
                a = S.new_string(ex, NAME)
                ex.call(fset, [a, V])
                b = S.new_string(ex, NAME)
                return ex.call(fget, [b])
            paths = ex.explore(v.st, thunk, max_paths=len(names) + 8)
            chk.functions.update([fset, fget])
            bad_set, bad_get, bad_other, bad_unknown = [], [], [], []
            seen = set()
            for p in paths:
                k = matched_key(p)
                wr = external_writes(p, v.st)
                pc = pc_term(p['pc'])
                if p['error'] is not None or p['terminal'] is not None:
                    bad_set.append(pc)
                    continue
                if k is not None:
                    seen.add(k)
                    a = addrs.get(k)
                    if a is None or set((x[0], x[1]) for x in wr) != {(a.rid, a.off)}:
                        bad_set.append(pc)
                    if p['ret'] is not V:
                        bad_get.append(pc)
                    for n2, a2 in addrs.items():
                        if n2 != k and p['st'].mem.get((a2.rid, a2.off), (0, None))[1] is not v.P[n2]:
                            bad_other.append(pc)
                            break
                else:
                    couts = [e[1] for e in p['st'].events if e[0] == 'cout' and isinstance(e[1], str)]
                    if wr or p['ret'] is not tm.const(-20) or not any('No such variable' in c for c in couts):
                        bad_unknown.append(pc)
            if seen != set(names):
                bad_set.append(tm.TRUE)
            pick = names[len(names) // 2] if names else None
            other = names[0] if names and names[0] != pick else (names[-1] if names else None)
            rs = store_replay(chk, scalar, name,
                              ['Scalar before = masa_get_param<Scalar>("%s");' % other, 'masa_set_param<Scalar>("%s",(Scalar)0.8125);' % pick,
                               'printf("\\nR get %%d\\n", masa_get_param<Scalar>("%s")==(Scalar)0.8125);' % pick,
                               'printf("R other %%d\\n", masa_get_param<Scalar>("%s")==before);' % other,
                               'masa_set_param<Scalar>("no_such_parameter_",(Scalar)3); printf("\\nR unknown %%d\\n", masa_get_param<Scalar>("no_such_parameter_")==(Scalar)(-20));',
                               'printf("R other2 %%d\\n", masa_get_param<Scalar>("%s")==before);' % other],
                              ['R get 1', 'R other 1', 'R unknown 1', 'R other2 1'], 'set/get round trip') if pick else None
            smp = dict(obligation='%s:set-get' % tag, paths=len(paths), registered=len(names))
            chk.paths_clean('%s:set(NAME,V)-stores-exactly-the-named-parameter' % tag, bad_set, key='%s:set' % name, family='set-get', sample=smp, replay=rs)
            chk.paths_clean('%s:get(NAME)-after-set-returns-V' % tag, bad_get, key='%s:get' % name, family='set-get', replay=rs)
            chk.paths_clean('%s:set-leaves-other-parameters' % tag, bad_other, key='%s:set-frame' % name, family='set-get', replay=rs)
            chk.paths_clean('%s:unknown-name-changes-nothing-get-returns--20' % tag, bad_unknown, key='%s:unknown' % name, family='set-get', replay=rs)
            # ---- init_param from an arbitrary parameter state: returns 0, restores the post-masa_init values
            finit = S.api_fn(w, 'masa_init_param', scalar, '')
            paths = ex.explore(v.st, lambda ex: ex.call(finit, []), 8)
            bad = []
            for p in paths:
                ok = p['error'] is None and p['terminal'] is None and p['ret'] == 0
                for n2, a2 in addrs.items():
                    if p['st'].mem.get((a2.rid, a2.off), (0, None))[1] is not v.st_concrete.mem[(a2.rid, a2.off)][1]:
                        ok = False
                if not ok:
                    bad.append(pc_term(p['pc']))
            chk.functions.add(finit)
            lines = ['Scalar d0 = masa_get_param<Scalar>("%s");' % pick, 'masa_set_param<Scalar>("%s",(Scalar)77.5);' % pick,
                     'printf("\\nR rc %%d\\n", masa_init_param<Scalar>()); printf("R restored %%d\\n", masa_get_param<Scalar>("%s")==d0);' % pick] if pick else []
            chk.paths_clean('%s:init_param-restores-defaults-returns-0' % tag, bad, key='%s:init_param' % name, family='init_param',
                            replay=store_replay(chk, scalar, name, lines, ['R rc 0', 'R restored 1'], 'masa_init_param') if pick else None)
            # ---- init_param also restores every VECTOR parameter (length and contents) from an arbitrary vector state
            if v.sol['vecs']:
                import c10
                stv = v.st.clone()
                c10.symbolize_vecs(stv, v.sol, n=3)
                want = c10.vec_snapshot(v.st_concrete, v.sol)
                paths = ex.explore(stv, lambda ex: ex.call(finit, []), 8)
                bad = [pc_term(p['pc']) for p in paths if p['error'] is not None or p['terminal'] is not None or p['ret'] != 0 or c10.vec_snapshot(p['st'], v.sol) != want]
                vn0 = sorted(v.sol['vecs'])
                lines = ['std::vector<Scalar> ref, cur, t_(3,(Scalar)0.625); bool ok=true;']
                for vn in vn0:
                    lines.append('masa_get_vec<Scalar>("%s",ref); masa_set_vec<Scalar>("%s",t_); masa_init_param<Scalar>(); masa_get_vec<Scalar>("%s",cur); ok = ok && cur.size()==ref.size(); for(size_t i=0;ok && i<ref.size();i++) ok = cur[i]==ref[i];' % (vn, vn, vn))
                lines.append('printf("\\nR vectors_restored %d\\n",(int)ok);')
                chk.paths_clean('%s:init_param-restores-vector-parameters' % tag, bad, key='%s:init_param-vectors' % name, family='init_param',
                                replay=store_replay(chk, scalar, name, lines, ['R vectors_restored 1'], 'masa_init_param after masa_set_vec'))
            # ---- purge: every scalar parameter becomes the marker
            fpurge = S.api_fn(w, 'masa_purge_default_param', scalar, '')
            paths = ex.explore(v.st, lambda ex: ex.call(fpurge, []), 8)
            bad = []
            for p in paths:
                ok = p['error'] is None and p['terminal'] is None
                for n2, a2 in addrs.items():
                    if p['st'].mem.get((a2.rid, a2.off), (0, None))[1] is not MARKER:
                        ok = False
                if not ok:
                    bad.append(pc_term(p['pc']))
            chk.functions.add(fpurge)
            lines = ['masa_purge_default_param<Scalar>(); printf("\\nR purged %%d\\n", masa_get_param<Scalar>("%s")==(Scalar)(-12345.67));' % pick,
                     'printf("R sanity_nonzero %d\\n", masa_sanity_check<Scalar>()!=0);'] if pick else []
            chk.paths_clean('%s:purge-sets-every-scalar-to-marker' % tag, bad, key='%s:purge' % name, family='purge',
                            replay=store_replay(chk, scalar, name, lines, ['R purged 1', 'R sanity_nonzero 1'], 'masa_purge_default_param') if pick else None)
            # ---- sanity_check: one parameter symbolic at a time
            fsan = S.api_fn(w, 'masa_sanity_check', scalar, '')
            chk.functions.add(fsan)
            sel = names if (chk.tier == 'thorough' or len(names) <= 12) else names[::max(1, len(names) // 12)]
            for n1 in sel:
                st1 = v.st_concrete.clone()
                a1 = addrs[n1]
                Pn = tm.sym('P_' + n1)
                st1.mem[(a1.rid, a1.off)] = (st1.mem[(a1.rid, a1.off)][0], Pn)
                paths = ex.explore(st1, lambda ex: ex.call(fsan, []), 16)
                if any(p['error'] is not None or p['terminal'] is not None for p in paths):
                    chk.paths_clean('%s:sanity_check:%s:executes' % (tag, n1), [tm.TRUE], key='%s:sanity' % name, family='sanity')
                    continue
                ret = pde.merge_paths([dict(p, ret=(p['ret'] if isinstance(p['ret'], T) else tm.iconst(p['ret']))) for p in paths])
                lines = ['masa_set_param<Scalar>("%s",(Scalar)(-12345.67)); printf("\\nR marker_nonzero %%d\\n", masa_sanity_check<Scalar>()!=0);' % n1,
                         'masa_set_param<Scalar>("%s",(Scalar)1.25); printf("\\nR set_zero %%d\\n", masa_sanity_check<Scalar>()==0);' % n1]
                rp_ = store_replay(chk, scalar, name, lines, ['R marker_nonzero 1', 'R set_zero 1'], 'masa_sanity_check with %s' % n1)
                chk.identity('%s:sanity_check:%s==marker->nonzero' % (tag, n1), tm.cmp('ne', ret, tm.iconst(0)), tm.TRUE, [tm.cmp('eq', Pn, MARKER)],
                             key='%s:sanity' % name, family='sanity', witnesses=False, replay=rp_) if False else None
                enc_goal_1 = tm.cmp('eq', ret, tm.iconst(0))
                far = tm.lor(tm.cmp('ge', tm.div(tm.sub(Pn, MARKER), MARKER), tm.const(Fraction(1, 10 ** 6))),
                             tm.cmp('le', tm.div(tm.sub(Pn, MARKER), MARKER), tm.const(Fraction(-1, 10 ** 6))))
                add_query(chk, '%s:sanity_check:%s==marker->nonzero' % (tag, n1), [tm.cmp('eq', Pn, MARKER)], [enc_goal_1], '%s:sanity' % name, rp_)
                add_query(chk, '%s:sanity_check:%s-far-from-marker->0' % (tag, n1), [far], [tm.cmp('ne', ret, tm.iconst(0))], '%s:sanity' % name, rp_)
            # ---- vectors
            for vname, (vidx, vaddr) in sorted(v.sol['vecs'].items()):
                vector_obligations(chk, w, v, scalar, name, vname, vaddr, fs, nmax, tag)
                # sanity_check: an emptied vector parameter (each one in turn, everything else at its default) is reported as uninitialised
                st1 = v.st_concrete.clone()
                vv = st1.side_mut((vaddr.rid, vaddr.off))
                vv.n = 0
                st1.mut(vv.buf).size = 0
                paths = ex.explore(st1, lambda ex: ex.call(fsan, []), 16)
                bad = [pc_term(p['pc']) for p in paths if p['error'] is not None or p['terminal'] is not None or p['ret'] == 0]
                lines = ['{ std::vector<Scalar> e_; masa_set_vec<Scalar>("%s", e_); } printf("\\nR empty_nonzero %%d\\n", masa_sanity_check<Scalar>()!=0);' % vname,
                         '{ std::vector<Scalar> e_(3,(Scalar)0.5); masa_set_vec<Scalar>("%s", e_); } masa_init_param<Scalar>(); printf("\\nR restored_zero %%d\\n", masa_sanity_check<Scalar>()==0);' % vname]
                chk.paths_clean('%s:sanity_check:empty-vector-%s->nonzero' % (tag, vname), bad, key='%s:sanity-vector' % name, family='sanity',
                                replay=store_replay(chk, scalar, name, lines, ['R empty_nonzero 1', 'R restored_zero 1'], 'masa_sanity_check with the vector %s emptied' % vname))
            if v.sol['vecs']:
                # unknown vector name: status 1, nothing changed
                fgv = S.api_fn(w, 'masa_get_vec', scalar, 'std::string, std::vector<%s>&' % scalar)

                def thunk_u(ex):
                    r = ex.st.new_region('alloca', 8, 'harness:vec')
                    models.new_vec(ex, Ptr(r.rid, 0), fs)
                    return ex.call(fgv, [S.new_string(ex, 'no_such_vector_'), Ptr(r.rid, 0)])
                paths = ex.explore(v.st, thunk_u, 8)
                bad = [pc_term(p['pc']) for p in paths if p['ret'] != 1 or external_writes(p, v.st) or p['error'] is not None]
                chk.paths_clean('%s:get_vec-unknown-name-status-1' % tag, bad, key='%s:vec-unknown' % name, family='vector')
    chk.solve_all()


def add_query(chk, name, assumptions, negated, key, replay):
    import smt
    enc = smt.Encoder(pi_bounds=True)
    script = enc.script(assumptions, negated, tactic='(check-sat)')
    chk.add(framework.Ob(name, 'prop', script, 'unsat', dict(obligation=name, assumptions=[tm.show(a, 4) for a in assumptions], negated=[tm.show(a, 4) for a in negated]),
                         replay, key, (), family='sanity'))


def vector_obligations(chk, w, v, scalar, name, vname, vaddr, fs, nmax, tag):
    ex = w.ex
    fsv = S.api_fn(w, 'masa_set_vec', scalar, 'std::string, std::vector<%s>&' % scalar)
    fgv = S.api_fn(w, 'masa_get_vec', scalar, 'std::string, std::vector<%s>&' % scalar)
    chk.functions.update([fsv, fgv])
    for n in range(0, nmax + 1):
        m = (n + 2) % (nmax + 1)
        elems = [tm.sym('e%d' % i) for i in range(n)]
        elems2 = [tm.sym('f%d' % i) for i in range(m)]
        res = {}

        def thunk(ex):
            a = ex.st.new_region('alloca', 8, 'harness:vec-in')
            models.new_vec(ex, Ptr(a.rid, 0), fs, n, lambda i: elems[i])
            ex.call(fsv, [S.new_string(ex, vname), Ptr(a.rid, 0)])
            o = ex.st.new_region('alloca', 8, 'harness:vec-out')
            models.new_vec(ex, Ptr(o.rid, 0), fs)
            r1 = ex.call(fgv, [S.new_string(ex, vname), Ptr(o.rid, 0)])
            ov = ex.st.side[(o.rid, 0)]
            got1 = [ex.load(Ptr(ov.buf, i * fs), fs, 'f64') for i in range(ov.n)]
            # second set with a different length must be honoured
            b = ex.st.new_region('alloca', 8, 'harness:vec-in2')
            models.new_vec(ex, Ptr(b.rid, 0), fs, m, lambda i: elems2[i])
            ex.call(fsv, [S.new_string(ex, vname), Ptr(b.rid, 0)])
            r2 = ex.call(fgv, [S.new_string(ex, vname), Ptr(o.rid, 0)])
            ov = ex.st.side[(o.rid, 0)]
            got2 = [ex.load(Ptr(ov.buf, i * fs), fs, 'f64') for i in range(ov.n)]
            return (r1, got1, r2, got2)
        paths = ex.explore(v.st, thunk, 8)
        bad = []
        for p in paths:
            ok = p['error'] is None and p['terminal'] is None
            if ok:
                r1, got1, r2, got2 = p['ret']
                ok = r1 == 0 and r2 == 0 and len(got1) == n and len(got2) == m and all(x is y for x, y in zip(got1, elems)) and all(x is y for x, y in zip(got2, elems2))
                # scalar parameters untouched
                for n2, (i2, a2) in v.sol['params'].items():
                    if isinstance(a2, Ptr) and p['st'].mem.get((a2.rid, a2.off), (0, None))[1] is not v.P[n2]:
                        ok = False
            if not ok:
                bad.append(pc_term(p['pc']))
        lines = ['{ std::vector<Scalar> a(%d), o; for(int i=0;i<%d;i++) a[i]=(Scalar)(0.5+i); masa_set_vec<Scalar>("%s",a); int r=masa_get_vec<Scalar>("%s",o);' % (n, n, vname, vname),
                 '  bool ok = r==0 && o.size()==a.size(); for(size_t i=0;ok && i<a.size();i++) ok = o[i]==a[i];',
                 '  std::vector<Scalar> b(%d); for(int i=0;i<%d;i++) b[i]=(Scalar)(7.25-i); masa_set_vec<Scalar>("%s",b); r=masa_get_vec<Scalar>("%s",o);' % (m, m, vname, vname),
                 '  ok = ok && r==0 && o.size()==b.size(); for(size_t i=0;ok && i<b.size();i++) ok = o[i]==b[i]; printf("\\nR vec %d\\n",(int)ok); }']
        chk.paths_clean('%s:set_vec/get_vec:%s:n=%d->%d' % (tag, vname, n, m), bad, key='%s:vec:%s' % (name, vname), family='vector',
                        sample=dict(obligation='%s:vec %s' % (tag, vname), n=n, m=m, paths=len(paths)),
                        replay=store_replay(chk, scalar, name, lines, ['R vec 1'], 'set_vec/get_vec round trip n=%d then %d' % (n, m)))


if __name__ == '__main__':
    framework.main('C11', body)
