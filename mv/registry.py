"""Symbolic registry states for C12/C16/C19 (DESIGN.md §4 C12): K entries with pairwise-distinct
symbolic handle strings, each mapped to a live solution object built by the real masa_init on the IR."""
import terms as tm
from terms import T
import sol as S
import models
from models import MapVal, StrVal
from exec import Ptr, NULL, ExecError


def registry_global(st, scalar):
    g = [n for n in st.gmap if ('masa_master_double' if scalar == 'double' else 'masa_master_longdouble') in n]
    return st.gmap[g[0]]


def registry_map_key(st, scalar):
    rid = registry_global(st, scalar)
    keys = [k for k, v in st.side.items() if k[0] == rid and isinstance(v, MapVal)]
    if len(keys) != 1:
        raise ExecError('registry object %s: expected exactly one std::map member, found %d' % (scalar, len(keys)))
    return keys[0]


def registry_map(st, scalar):
    k = registry_map_key(st, scalar)
    return st.side[k], k[0]


def build(world, scalar, solnames, symbolic=True, select=None, prefix='H'):
    """state after masa_init(H_i, solnames[i]) for i in order; if symbolic, the handle keys are then replaced by
    pairwise-distinct symbolic strings H0..; select=i makes entry i the selected one (default: last initialised).
    Returns (state, handles, objects)"""
    st = world.base.clone()
    objs = []
    for i, n in enumerate(solnames):
        S.api_init(world, st, scalar, '%s%d' % (prefix, i), n)
        p, rid = S.selected_object(world, st, scalar)
        objs.append(p)
    st.events = []
    st.writes = []
    handles = ['%s%d' % (prefix, i) for i in range(len(solnames))]
    if symbolic and solnames:
        m, rid = registry_map(st, scalar)
        m = st.side_mut(registry_map_key(st, scalar))
        hs = []
        new_entries = []
        for (key, erid) in m.entries:
            i = handles.index(key)
            h = tm.sym('%s%d' % (prefix, i), 'S')
            hs.append((i, h))
            new_entries.append((h, erid))
            st.side_set((erid, 0), StrVal(h))
        m.entries = new_entries
        hd = dict(hs)
        handles = [hd[i] for i in range(len(solnames))]
        # pairwise distinctness is an assumption of every query over this state
        st.distinct = [tm.cmp('ne', a, b) for k, a in enumerate(handles) for b in handles[k + 1:]]
    else:
        st.distinct = []
    if select is not None and solnames:
        rid = registry_global(st, scalar)
        st.mem[(rid, 0)] = (8, objs[select])
    return st, handles, objs


def snapshot(world, st, scalar):
    """observable registry state: (selected pointer, {handle key: object ptr})"""
    m, rid = registry_map(st, scalar)
    ptr = st.mem.get((rid, 0), (8, NULL))[1]
    ents = {}
    for key, erid in m.entries:
        ents[key if isinstance(key, str) else key.p] = st.mem[(erid, 8)][1]
    return ptr, ents


def keyname(k):
    return k if isinstance(k, str) else k.p
