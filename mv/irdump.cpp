// irdump: LLVM-14 IR (.ll/.bc) -> JSON for Engine A (DESIGN.md §2.1).
// GEPs are folded to byte offsets with the module's DataLayout, FP constants are
// written as exact bit patterns, global initialisers (string literals, vtables)
// are written structurally.  Python never parses .ll text.
#include <llvm/IR/Constants.h>
#include <llvm/IR/DataLayout.h>
#include <llvm/IR/Function.h>
#include <llvm/IR/GetElementPtrTypeIterator.h>
#include <llvm/IR/GlobalAlias.h>
#include <llvm/IR/GlobalVariable.h>
#include <llvm/IR/Instructions.h>
#include <llvm/IR/IntrinsicInst.h>
#include <llvm/IR/LLVMContext.h>
#include <llvm/IR/Module.h>
#include <llvm/IR/Operator.h>
#include <llvm/IRReader/IRReader.h>
#include <llvm/Support/SourceMgr.h>
#include <llvm/Support/raw_ostream.h>
#include <cstdio>
#include <map>
#include <string>

using namespace llvm;

static const DataLayout *DL;
static std::map<const Value *, unsigned> ids;

static std::string esc(StringRef s) {
  std::string o;
  for (unsigned char c : s) {
    if (c == '"' || c == '\\') { o += '\\'; o += c; }
    else if (c < 0x20 || c >= 0x7f) { char b[8]; snprintf(b, sizeof b, "\\u%04x", c); o += b; }
    else o += c;
  }
  return o;
}

static std::string tyname(Type *t) {
  if (t->isVoidTy()) return "void";
  if (t->isDoubleTy()) return "f64";
  if (t->isFloatTy()) return "f32";
  if (t->isX86_FP80Ty()) return "f80";
  if (t->isIntegerTy()) return "i" + std::to_string(t->getIntegerBitWidth());
  if (t->isPointerTy()) return "ptr";
  if (t->isLabelTy()) return "label";
  if (t->isSized()) return "agg" + std::to_string(DL->getTypeAllocSize(t).getFixedSize());
  return "other";
}

static std::string op(const Value *v);

// constant address expression -> (global name, offset); returns false if not of that form
static bool constAddr(const Constant *c, std::string &g, int64_t &off, bool &isfn) {
  if (auto *gv = dyn_cast<GlobalVariable>(c)) { g = gv->getName().str(); isfn = false; return true; }
  if (auto *f = dyn_cast<Function>(c)) { g = f->getName().str(); isfn = true; return true; }
  if (auto *ga = dyn_cast<GlobalAlias>(c)) return constAddr(ga->getAliasee(), g, off, isfn);
  if (auto *ce = dyn_cast<ConstantExpr>(c)) {
    if (ce->getOpcode() == Instruction::BitCast || ce->getOpcode() == Instruction::AddrSpaceCast)
      return constAddr(ce->getOperand(0), g, off, isfn);
    if (ce->getOpcode() == Instruction::GetElementPtr) {
      auto *gep = cast<GEPOperator>(ce);
      APInt o(64, 0);
      if (!gep->accumulateConstantOffset(*DL, o)) return false;
      if (!constAddr(cast<Constant>(gep->getPointerOperand()), g, off, isfn)) return false;
      off += o.getSExtValue();
      return true;
    }
  }
  return false;
}

static std::string fpbits(const ConstantFP *cf) {
  APInt b = cf->getValueAPF().bitcastToAPInt();
  SmallString<40> s;
  b.toString(s, 16, false);
  return std::string(s.str());
}

static std::string op(const Value *v) {
  if (auto *ci = dyn_cast<ConstantInt>(v)) {
    SmallString<40> s; ci->getValue().toString(s, 10, true);
    return "{\"k\":\"ci\",\"w\":" + std::to_string(ci->getBitWidth()) + ",\"v\":\"" + std::string(s.str()) + "\"}";
  }
  if (auto *cf = dyn_cast<ConstantFP>(v))
    return "{\"k\":\"cf\",\"t\":\"" + tyname(cf->getType()) + "\",\"bits\":\"" + fpbits(cf) + "\"}";
  if (isa<ConstantPointerNull>(v)) return "{\"k\":\"null\"}";
  if (isa<UndefValue>(v)) return "{\"k\":\"undef\",\"t\":\"" + tyname(v->getType()) + "\"}";
  if (isa<ConstantAggregateZero>(v)) return "{\"k\":\"zero\",\"t\":\"" + tyname(v->getType()) + "\"}";
  if (auto *c = dyn_cast<Constant>(v)) {
    std::string g; int64_t off = 0; bool isfn = false;
    if (constAddr(c, g, off, isfn)) {
      if (isfn) return "{\"k\":\"fn\",\"name\":\"" + esc(g) + "\"}";
      return "{\"k\":\"g\",\"name\":\"" + esc(g) + "\",\"off\":" + std::to_string(off) + "}";
    }
    if (auto *ce = dyn_cast<ConstantExpr>(c)) {
      if (ce->getOpcode() == Instruction::PtrToInt || ce->getOpcode() == Instruction::IntToPtr)
        return op(ce->getOperand(0));
      std::string s = "{\"k\":\"ce\",\"op\":\"" + std::string(ce->getOpcodeName()) + "\",\"ops\":[";
      for (unsigned i = 0; i < ce->getNumOperands(); i++) { if (i) s += ","; s += op(ce->getOperand(i)); }
      return s + "]}";
    }
    if (auto *ca = dyn_cast<ConstantAggregate>(c)) {
      std::string s = "{\"k\":\"cagg\",\"ops\":[";
      for (unsigned i = 0; i < ca->getNumOperands(); i++) { if (i) s += ","; s += op(ca->getOperand(i)); }
      return s + "]}";
    }
    return "{\"k\":\"const?\"}";
  }
  if (auto *a = dyn_cast<Argument>(v)) return "{\"k\":\"arg\",\"i\":" + std::to_string(a->getArgNo()) + "}";
  if (auto *bb = dyn_cast<BasicBlock>(v)) return "{\"k\":\"bb\",\"id\":" + std::to_string(ids[bb]) + "}";
  if (isa<Instruction>(v)) return "{\"k\":\"v\",\"id\":" + std::to_string(ids[v]) + "}";
  if (isa<InlineAsm>(v)) return "{\"k\":\"asm\"}";
  if (isa<MetadataAsValue>(v)) return "{\"k\":\"md\"}";
  return "{\"k\":\"?\"}";
}

// flatten a global initialiser into a list of {off,size,val}
static void flatInit(const Constant *c, uint64_t off, std::string &out, bool &first) {
  Type *t = c->getType();
  if (isa<ConstantAggregateZero>(c) ) {
    // explicit zero entries for scalars are expensive for big arrays; emit one zero range
    if (!first) out += ","; first = false;
    out += "{\"off\":" + std::to_string(off) + ",\"size\":" + std::to_string(DL->getTypeAllocSize(t).getFixedSize()) + ",\"val\":{\"k\":\"zero\",\"t\":\"" + tyname(t) + "\"}}";
    return;
  }
  if (auto *cds = dyn_cast<ConstantDataSequential>(c)) {
    if (cds->isString() || (cds->getElementType()->isIntegerTy(8))) {
      StringRef s = cds->getRawDataValues();
      if (!first) out += ","; first = false;
      out += "{\"off\":" + std::to_string(off) + ",\"size\":" + std::to_string(s.size()) + ",\"val\":{\"k\":\"bytes\",\"hex\":\"";
      static const char *hx = "0123456789abcdef";
      for (unsigned char ch : s) { out += hx[ch >> 4]; out += hx[ch & 15]; }
      out += "\"}}";
      return;
    }
    uint64_t es = DL->getTypeAllocSize(cds->getElementType()).getFixedSize();
    for (unsigned i = 0; i < cds->getNumElements(); i++) flatInit(cds->getElementAsConstant(i), off + i * es, out, first);
    return;
  }
  if (auto *cs = dyn_cast<ConstantStruct>(c)) {
    const StructLayout *sl = DL->getStructLayout(cs->getType());
    for (unsigned i = 0; i < cs->getNumOperands(); i++) flatInit(cs->getOperand(i), off + sl->getElementOffset(i), out, first);
    return;
  }
  if (auto *ca = dyn_cast<ConstantArray>(c)) {
    uint64_t es = DL->getTypeAllocSize(ca->getType()->getElementType()).getFixedSize();
    for (unsigned i = 0; i < ca->getNumOperands(); i++) flatInit(ca->getOperand(i), off + i * es, out, first);
    return;
  }
  if (!first) out += ","; first = false;
  out += "{\"off\":" + std::to_string(off) + ",\"size\":" + std::to_string(DL->getTypeStoreSize(t).getFixedSize()) + ",\"t\":\"" + tyname(t) + "\",\"val\":" + op(c) + "}";
}

int main(int argc, char **argv) {
  if (argc < 2) { fprintf(stderr, "usage: irdump file.ll > out.json\n"); return 2; }
  LLVMContext ctx; SMDiagnostic err;
  std::unique_ptr<Module> M = parseIRFile(argv[1], err, ctx);
  if (!M) { err.print("irdump", errs()); return 2; }
  DL = &M->getDataLayout();
  raw_ostream &O = outs();
  O << "{\"module\":\"" << esc(M->getName()) << "\",\n\"globals\":{";
  bool firstg = true;
  for (auto &g : M->globals()) {
    if (!firstg) O << ",\n"; firstg = false;
    O << "\"" << esc(g.getName()) << "\":{\"internal\":" << (g.hasLocalLinkage() ? "true" : "false") << ",\"const\":" << (g.isConstant() ? "true" : "false")
      << ",\"decl\":" << (g.isDeclaration() ? "true" : "false");
    Type *vt = g.getValueType();
    if (vt->isSized()) O << ",\"size\":" << DL->getTypeAllocSize(vt).getFixedSize();
    O << ",\"t\":\"" << tyname(vt) << "\"";
    if (g.hasInitializer()) {
      std::string s; bool first = true;
      flatInit(g.getInitializer(), 0, s, first);
      O << ",\"init\":[" << s << "]";
    }
    O << "}";
  }
  O << "},\n\"aliases\":{";
  bool firsta = true;
  for (auto &a : M->aliases()) {
    if (!firsta) O << ","; firsta = false;
    O << "\"" << esc(a.getName()) << "\":" << op(a.getAliasee());
  }
  O << "},\n\"functions\":{";
  bool firstf = true;
  for (auto &F : *M) {
    if (!firstf) O << ",\n"; firstf = false;
    O << "\"" << esc(F.getName()) << "\":{\"internal\":" << (F.hasLocalLinkage() ? "true" : "false") << ",\"decl\":" << (F.isDeclaration() ? "true" : "false")
      << ",\"ret\":\"" << tyname(F.getReturnType()) << "\",\"vararg\":" << (F.isVarArg() ? "true" : "false") << ",\"params\":[";
    for (unsigned i = 0; i < F.arg_size(); i++) {
      if (i) O << ",";
      Argument *A = F.getArg(i);
      O << "{\"t\":\"" << tyname(A->getType()) << "\"";
      if (A->hasStructRetAttr()) O << ",\"sret\":true";
      if (A->hasByValAttr()) O << ",\"byval\":" << DL->getTypeAllocSize(A->getParamByValType()).getFixedSize();
      O << "}";
    }
    O << "]";
    if (!F.isDeclaration()) {
      ids.clear();
      unsigned n = 0;
      for (auto &BB : F) { ids[&BB] = n++; }
      n = 0;
      for (auto &BB : F) for (auto &I : BB) ids[&I] = n++;
      O << ",\"blocks\":[";
      bool firstb = true;
      for (auto &BB : F) {
        if (!firstb) O << ","; firstb = false;
        O << "\n[";
        bool firsti = true;
        for (auto &I : BB) {
          if (isa<DbgInfoIntrinsic>(&I)) continue;
          if (!firsti) O << ",\n "; firsti = false;
          O << "{\"id\":" << ids[&I] << ",\"op\":\"" << I.getOpcodeName() << "\",\"t\":\"" << tyname(I.getType()) << "\"";
          if (auto *gep = dyn_cast<GetElementPtrInst>(&I)) {
            // base + const + sum(idx*scale)
            int64_t coff = 0; std::string var;
            gep_type_iterator GTI = gep_type_begin(gep);
            for (unsigned i = 1; i < gep->getNumOperands(); ++i, ++GTI) {
              Value *idx = gep->getOperand(i);
              if (StructType *ST = GTI.getStructTypeOrNull()) {
                coff += DL->getStructLayout(ST)->getElementOffset(cast<ConstantInt>(idx)->getZExtValue());
              } else {
                uint64_t sz = DL->getTypeAllocSize(GTI.getIndexedType()).getFixedSize();
                if (auto *ci = dyn_cast<ConstantInt>(idx)) coff += ci->getSExtValue() * (int64_t)sz;
                else { if (!var.empty()) var += ","; var += "[" + op(idx) + "," + std::to_string(sz) + "]"; }
              }
            }
            O << ",\"base\":" << op(gep->getPointerOperand()) << ",\"off\":" << coff << ",\"var\":[" << var << "]";
          } else if (auto *al = dyn_cast<AllocaInst>(&I)) {
            O << ",\"size\":" << DL->getTypeAllocSize(al->getAllocatedType()).getFixedSize() << ",\"count\":" << op(al->getArraySize())
              << ",\"aty\":\"" << tyname(al->getAllocatedType()) << "\"";
          } else if (auto *ld = dyn_cast<LoadInst>(&I)) {
            O << ",\"ptr\":" << op(ld->getPointerOperand()) << ",\"size\":" << DL->getTypeStoreSize(ld->getType()).getFixedSize();
          } else if (auto *st = dyn_cast<StoreInst>(&I)) {
            O << ",\"ptr\":" << op(st->getPointerOperand()) << ",\"val\":" << op(st->getValueOperand())
              << ",\"vt\":\"" << tyname(st->getValueOperand()->getType()) << "\",\"size\":" << DL->getTypeStoreSize(st->getValueOperand()->getType()).getFixedSize();
          } else if (auto *cb = dyn_cast<CallBase>(&I)) {
            Value *cv = cb->getCalledOperand()->stripPointerCasts();
            if (auto *cf = dyn_cast<Function>(cv)) O << ",\"callee\":\"" << esc(cf->getName()) << "\"";
            else O << ",\"calleev\":" << op(cb->getCalledOperand());
            O << ",\"args\":[";
            for (unsigned i = 0; i < cb->arg_size(); i++) { if (i) O << ","; O << op(cb->getArgOperand(i)); }
            O << "],\"argt\":[";
            for (unsigned i = 0; i < cb->arg_size(); i++) { if (i) O << ","; O << "\"" << tyname(cb->getArgOperand(i)->getType()) << "\""; }
            O << "]";
            if (auto *inv = dyn_cast<InvokeInst>(&I))
              O << ",\"normal\":" << ids[inv->getNormalDest()] << ",\"unwind\":" << ids[inv->getUnwindDest()];
          } else if (auto *phi = dyn_cast<PHINode>(&I)) {
            O << ",\"inc\":[";
            for (unsigned i = 0; i < phi->getNumIncomingValues(); i++) {
              if (i) O << ",";
              O << "[" << op(phi->getIncomingValue(i)) << "," << ids[phi->getIncomingBlock(i)] << "]";
            }
            O << "]";
          } else if (auto *br = dyn_cast<BranchInst>(&I)) {
            if (br->isConditional()) O << ",\"cond\":" << op(br->getCondition()) << ",\"t1\":" << ids[br->getSuccessor(0)] << ",\"t0\":" << ids[br->getSuccessor(1)];
            else O << ",\"dest\":" << ids[br->getSuccessor(0)];
          } else if (auto *sw = dyn_cast<SwitchInst>(&I)) {
            O << ",\"cond\":" << op(sw->getCondition()) << ",\"default\":" << ids[sw->getDefaultDest()] << ",\"cases\":[";
            bool fc = true;
            for (auto &c : sw->cases()) { if (!fc) O << ","; fc = false; O << "[" << op(c.getCaseValue()) << "," << ids[c.getCaseSuccessor()] << "]"; }
            O << "]";
          } else if (auto *cmp = dyn_cast<CmpInst>(&I)) {
            O << ",\"pred\":\"" << CmpInst::getPredicateName(cmp->getPredicate()) << "\",\"ops\":[" << op(cmp->getOperand(0)) << "," << op(cmp->getOperand(1)) << "],\"ot\":\"" << tyname(cmp->getOperand(0)->getType()) << "\"";
          } else if (auto *ev = dyn_cast<ExtractValueInst>(&I)) {
            O << ",\"ops\":[" << op(ev->getAggregateOperand()) << "],\"idx\":[";
            for (unsigned i = 0; i < ev->getNumIndices(); i++) { if (i) O << ","; O << ev->getIndices()[i]; }
            O << "]";
          } else if (auto *iv = dyn_cast<InsertValueInst>(&I)) {
            O << ",\"ops\":[" << op(iv->getAggregateOperand()) << "," << op(iv->getInsertedValueOperand()) << "],\"idx\":[";
            for (unsigned i = 0; i < iv->getNumIndices(); i++) { if (i) O << ","; O << iv->getIndices()[i]; }
            O << "]";
          } else {
            O << ",\"ops\":[";
            for (unsigned i = 0; i < I.getNumOperands(); i++) { if (i) O << ","; O << op(I.getOperand(i)); }
            O << "]";
            if (isa<CastInst>(&I)) O << ",\"ft\":\"" << tyname(I.getOperand(0)->getType()) << "\"";
            if (auto *obo = dyn_cast<OverflowingBinaryOperator>(&I)) {
              if (obo->hasNoSignedWrap()) O << ",\"nsw\":true";
              if (obo->hasNoUnsignedWrap()) O << ",\"nuw\":true";
            }
          }
          O << "}";
        }
        O << "]";
      }
      O << "]";
    }
    O << "}";
  }
  O << "}}\n";
  return 0;
}
