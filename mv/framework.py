"""Check framework: obligations -> solver -> replay -> known findings -> evidence (DESIGN.md §3.5-3.8, §7)."""
import os
import sys
import json
import time
import shutil
import hashlib
import resource
import traceback
from concurrent.futures import ThreadPoolExecutor
import build
import smt
import terms as tm

VERIF = build.VERIF
KNOWN = os.path.join(VERIF, 'known_findings.txt')


def load_known():
    known, fixed = {}, []
    if os.path.exists(KNOWN):
        for line in open(KNOWN):
            line = line.strip()
            if line.startswith('known:'):
                parts = line[6:].split()
                d = dict(p.split('=', 1) for p in parts[:2] if '=' in p)
                known[(d.get('property'), d.get('key'))] = ' '.join(parts[2:])
            elif line.startswith('fixed:'):
                fixed.append(line)
    return known, fixed


class Ob(object):
    def __init__(self, name, kind, script, expect, sample=None, replay=None, key=None, fns=(), timeout=None, bounds=None, family=None):
        self.name = name
        self.kind = kind          # 'prop' | 'witness' | 'lemma'
        self.script = script
        self.expect = expect
        self.sample = sample
        self.replay = replay
        self.key = key or name
        self.fns = list(fns)
        self.timeout = timeout
        self.result = None
        self.status = None
        self.bounds = bounds
        self.family = family
        self.search = None        # dict(conds, names, ranges): where the concrete refutation of an undecided obligation looks for points


class Check(object):
    def __init__(self, pid, argv=None):
        self.pid = pid
        argv = argv if argv is not None else sys.argv[1:]
        self.tier = os.environ.get('VERIF_TIER', 'quick')
        if '--tier' in argv:
            self.tier = argv[argv.index('--tier') + 1]
        if self.tier not in ('quick', 'thorough'):
            self.tier = 'quick'
        self.seed = int(os.environ.get('VERIF_SEED', '0') or 0)
        self.t0 = time.time()
        self.scratch = build.scratch('masa-verif-%s-' % pid)
        self.obs = []
        self.violations = []
        self.known_hits = []
        self.infra = []
        self.undecided = []
        self.inconclusive = []
        self.notes = []
        self.assumptions = []
        self.functions = set()
        self.bounds = {}
        self.level = 'other'
        self.extra_cov = {}
        self.known, self.fixed = load_known()
        self.qtimeout = 60 if self.tier == 'quick' else 600
        self._world = {}
        self.validation = dict(points=0, mismatches=0)
        self.samples = []

    # ------------------------------------------------------------------------------------------
    def world(self, exceptions=False, units=None, extra=()):
        extra = tuple(extra) + tuple(getattr(self, 'config_extra', ()))        # build-configuration pass (e.g. -DNDEBUG) of a check
        key = (exceptions, tuple(units or ()), tuple(extra))
        if key not in self._world:
            from sol import World
            d = os.path.join(self.scratch, 'ir%d' % len(self._world))
            os.makedirs(d)
            build.compile_ir(d, units=units, exceptions=exceptions, extra=extra)
            self._world[key] = World(d)
        return self._world[key]

    def lib(self):
        from replay import Lib
        if getattr(self, 'config_extra', ()):
            return Lib(self.scratch, extra=tuple(self.config_extra))       # replays of a configuration pass run on a library built the same way
        return Lib.get(self.scratch)

    # ------------------------------------------------------------------------------------------
    def add(self, ob):
        sfx = getattr(self, 'name_suffix', '')
        if sfx:
            ob.name += sfx
            if ob.key:
                ob.key += sfx
        self.obs.append(ob)
        for f in ob.fns:
            self.functions.add(f)
        return ob

    def identity(self, name, lib, ref, assumptions=(), fns=(), replay=None, witnesses=True, key=None, timeout=None, family=None, sample=None):
        """obligation lib == ref for all values satisfying assumptions (real model); plus mutation witnesses"""
        enc = smt.Encoder()
        neg = tm.cmp('ne', lib, ref)
        script = enc.script(list(assumptions), [neg])
        smp = sample or dict(obligation=name, lhs=tm.show(lib, 3), rhs=tm.show(ref, 3), vars=enc.nvars, info=dict(enc.info))
        ob = self.add(Ob(name, 'prop', script, 'unsat', smp, replay, key, fns, timeout, family=family))
        ob.assumed = list(assumptions)      # read by the replays: a parameter assumed only non-zero is also tried with the other sign
        if witnesses:
            # assumption witness: assumptions + definitions alone must be satisfiable
            enc2 = smt.Encoder()
            s2 = enc2.script(list(assumptions), [tm.cmp('eq', lib, lib)] if False else [])
            enc2.enc(lib)
            enc2.enc(ref)
            s2 = enc2.script(list(assumptions), [])
            self.add(Ob(name + "#assumptions-sat", "witness", s2, "sat", None, None, None, (), 30, family=family))
            # mutation witness: library result doubled must be distinguishable
            enc3 = smt.Encoder()
            s3 = enc3.script(list(assumptions), [tm.cmp('ne', tm.mul(tm.TWO, lib), ref), tm.cmp('ne', ref, tm.ZERO)])
            self.add(Ob(name + "#mutant-x2", "witness", s3, "sat", None, None, None, (), 30, family=family))
        return ob

    def paths_clean(self, name, bad_pcs, fns=(), replay=None, key=None, sample=None, family=None):
        """structural obligation: no feasible path violates; bad_pcs = path conditions (Bool terms) of violating paths"""
        enc = smt.Encoder(pi_bounds=False)
        goal = tm.lor(*bad_pcs) if bad_pcs else tm.FALSE
        script = enc.script([], [goal], tactic='(check-sat)') if goal is not tm.FALSE else None
        return self.add(Ob(name, 'prop', script, 'unsat', sample or dict(obligation=name, violating_paths=len(bad_pcs)), replay, key, fns, family=family))

    # ------------------------------------------------------------------------------------------
    def solve_all(self, workers=16):
        def one(ob):
            if ob.script is None:
                # no violating path survived symbolic execution: the residual formula is literally `false`
                ob.result = dict(verdict='unsat', time=0.0, output='', solver='none(residual formula is false)', hash='false:' + ob.name)
                return ob
            try:
                to = ob.timeout or self.qtimeout
                ob.result = smt.run_solver(ob.script, to, workdir=self.scratch, tag=self.pid)
            except Exception as e:
                ob.result = dict(verdict='error', time=0, output=repr(e), solver='z3')
            return ob
        todo = [ob for ob in self.obs if ob.result is None]
        with ThreadPoolExecutor(max_workers=workers) as ex:
            list(ex.map(one, todo))
        for ob in todo:
            self.classify(ob)

    def classify(self, ob):
        v = ob.result['verdict']
        if ob.kind == 'witness':
            if v == ob.expect:
                ob.status = 'witness-ok'
            elif v in ('timeout', 'unknown'):
                ob.status = 'witness-undecided'
                self.notes.append('witness %s undecided (%s)' % (ob.name, v))
            elif v == 'error':
                ob.status = 'error'
                self.infra.append('witness %s: solver error: %s' % (ob.name, ob.result['output'][:300]))
            else:
                ob.status = 'witness-failed'
                self.infra.append('witness %s: expected %s got %s (vacuous or insensitive query)' % (ob.name, ob.expect, v))
            return
        if v == 'unsat':
            ob.status = 'discharged'
        elif v in ('timeout', 'unknown'):
            # no verdict.  Before giving up, the obligation's concrete replay is run at generic admissible points: a mismatch between
            # the real library and the reference there is a violation in its own right (a counterexample the solver did not get to);
            # no mismatch leaves the obligation UNDECIDED -- it is never counted as held.
            rep = None
            if ob.kind == 'prop' and ob.replay is not None:
                try:
                    rep = ob.replay(ob, self.find_point(ob.search) if ob.search else {})
                    if not (rep and rep.get('reproduced')) and ob.search:
                        # the sampling ranges sit around the (positive) defaults: parameters whose sign no assumption fixes are also tried
                        # with the mirrored range -- all of them at once, then one at a time
                        for variant in self.sign_variants(ob.search):
                            pt = self.find_point(variant, tries=200, steps=600)
                            if not pt:
                                continue
                            rep = ob.replay(ob, pt)
                            if rep and rep.get('reproduced'):
                                break
                except Exception as e:
                    self.notes.append('refutation attempt for undecided %s failed: %r' % (ob.name, e))
            if rep and rep.get('reproduced'):
                ob.result['refuted_concretely'] = True
                self.report_violation(ob.key, rep.get('path'), '(solver %s; refuted at a concrete point) %s' % (v, rep.get('detail', '')), ob)
            else:
                ob.status = 'undecided'
                self.undecided.append(ob)
        elif v == 'error':
            ob.status = 'error'
            self.infra.append('obligation %s: solver error: %s' % (ob.name, ob.result['output'][:300]))
        elif v == 'sat':
            self.handle_sat(ob)

    def sign_variants(self, search, cap=8):
        from fractions import Fraction
        fixed = set()
        for c in search['conds']:
            d = c
            while d.op == 'not':
                d = d.a[0]
            if d.op in ('lt', 'le', 'gt', 'ge') and len(d.a) == 2:
                for a_, b_ in ((d.a[0], d.a[1]), (d.a[1], d.a[0])):
                    if a_.op == 'sym' and tm.isc(b_):
                        fixed.add(a_.p)
        ranges = dict(search.get('ranges') or {})
        free = [n for n in search['names'] if n not in fixed and ranges.get(n, (Fraction(1, 8), Fraction(2)))[0] > 0]
        if not free:
            return
        mirror = lambda n: (-ranges.get(n, (Fraction(1, 8), Fraction(2)))[1], -ranges.get(n, (Fraction(1, 8), Fraction(2)))[0])
        groups = [free] + [[n] for n in free[:cap]]
        for g in groups:
            r2 = dict(ranges)
            for n in g:
                r2[n] = mirror(n)
            v = dict(search)
            v['ranges'] = r2
            yield v

    def find_point(self, search, tries=400, steps=1500):
        """a point (name -> Fraction) at which every condition of the obligation (assumptions, path and case conditions) holds numerically:
        random samples of the stated ranges (wider default range for unlisted names), then a local search that shrinks the
        relative gap of the unsatisfied comparisons; {} if none is found"""
        import random
        from fractions import Fraction
        import sweep
        mp = sweep.rp.mp
        rng = random.Random(self.seed * 31 + 7)
        conds = list(search['conds'])
        nodes = tm.topo(conds)
        ranges = search.get('ranges') or {}
        names = list(search['names'])
        rng_of = lambda n: ranges.get(n, (Fraction(1, 8), Fraction(2)))

        def score(env):
            e = dict((n, mp.mpf(v.numerator) / v.denominator) for n, v in env.items())
            vals = sweep.eval_all(nodes, e, search.get('ufs'))
            tot = 0.0
            for c in conds:
                v = vals.get(c.id)
                if v is True:
                    continue
                neg, d = False, c
                while d.op == 'not':
                    neg, d = not neg, d.a[0]
                gap = 1.0
                if d.op in ('lt', 'le', 'eq') and v is not None:
                    a, b = vals.get(d.a[0].id), vals.get(d.a[1].id)
                    if a is not None and b is not None:
                        gap = float(abs(a - b) / (abs(a) + abs(b) + mp.mpf('1e-300')))
                tot += 1.0 + gap if v is None else 0.001 + gap
            return tot

        def sample():
            env = {}
            for n in names:
                lo, hi = rng_of(n)
                env[n] = lo + (hi - lo) * Fraction(rng.randint(1, 1023), 1024)
            return env
        best, bs = None, None
        for k in range(tries):
            env = sample()
            sc = score(env)
            if sc == 0:
                return env
            if bs is None or sc < bs:
                best, bs = env, sc
        for k in range(steps):
            env = dict(best)
            for n in rng.sample(names, min(len(names), rng.choice((1, 1, 2, 3)))):
                lo, hi = rng_of(n)
                w_ = (hi - lo) * Fraction(rng.choice((1, 2, 4, 8, 16, 32)), 64)
                v = env[n] + w_ * Fraction(rng.randint(-512, 512), 512)
                env[n] = min(hi - (hi - lo) / 2048, max(lo + (hi - lo) / 2048, v))
            sc = score(env)
            if sc == 0:
                return env
            if sc <= bs:
                best, bs = env, sc
        return {}

    def handle_sat(self, ob):
        model = smt.parse_model(ob.result.get('output', ''))
        if not model and ob.script and '(get-model)' not in ob.script:
            # ask again for the satisfying assignment: replays start from the solver's counterexample
            try:
                r2 = smt.run_solver(ob.script + '(get-model)\n', min(ob.timeout or self.qtimeout, 60), workdir=self.scratch, tag=self.pid)
                if r2['verdict'] == 'sat':
                    model = smt.parse_model(r2.get('output', ''))
            except Exception:
                model = {}
        rep = None
        if ob.replay is not None:
            try:
                rep = ob.replay(ob, model)
            except Exception as e:
                traceback.print_exc()
                self.infra.append('replay of %s failed: %r' % (ob.name, e))
                ob.status = 'error'
                return
        else:
            rep = dict(reproduced=True, path=self.save_replay(ob, dict(note='structural counterexample; no concrete replay registered', sample=ob.sample)), detail='')
        if rep.get('reproduced'):
            self.report_violation(ob.key, rep.get('path'), rep.get('detail', ''), ob)
        else:
            ob.status = 'inconclusive'
            self.inconclusive.append(ob)
            print('INCONCLUSIVE obligation=%s (solver model did not reproduce on the real library: abstraction artefact) %s' % (ob.name, rep.get('detail', '')))

    def report_violation(self, key, path, detail, ob=None):
        k = (self.pid, key)
        if k in self.known:
            if ob is not None:
                ob.status = 'known-finding'
            if key not in [x for x, _ in self.known_hits]:
                print('KNOWN-FINDING: property=%s %s [%s]' % (self.pid, self.known[k], key))
            self.known_hits.append((key, self.known[k]))
        else:
            if ob is not None:
                ob.status = 'violation'
            self.violations.append((key, path, detail))
            print('VIOLATION property=%s replay=%s' % (self.pid, path))
            print('  key=%s %s' % (key, detail))

    def save_replay(self, ob_or_name, data, src=None):
        name = ob_or_name.name if isinstance(ob_or_name, Ob) else ob_or_name
        d = os.path.join(os.environ.get('VERIF_REPLAY_DIR') or os.path.join(VERIF, 'replays'), self.pid)
        os.makedirs(d, exist_ok=True)
        h = hashlib.sha1(name.encode()).hexdigest()[:8]
        base = os.path.join(d, '%s-%s' % (''.join(c if c.isalnum() else '_' for c in name)[:60], h))
        with open(base + '.json', 'w') as fh:
            json.dump(data, fh, indent=1, default=str)
        if src is not None:
            with open(base + '.cpp', 'w') as fh:
                fh.write(src)
        return base + '.json'

    # ------------------------------------------------------------------------------------------
    def finish(self):
        pending = [ob for ob in self.obs if ob.result is None]
        if pending:
            self.solve_all()
        for w_ in self._world.values():
            for c in w_.ex.called:
                if c in w_.prog.functions:
                    self.functions.add(c)
        for u_, e_ in build.SKIPPED_UNITS:
            self.notes.append('unit %s was not lowered to IR and is not part of this run: %s' % (u_, e_[:300]))
        props = [ob for ob in self.obs if ob.kind in ('prop', 'lemma')]
        wit = [ob for ob in self.obs if ob.kind == 'witness']
        discharged = [ob for ob in props if ob.status == 'discharged']
        solver_time = sum(ob.result['time'] for ob in self.obs if ob.result)
        for ob in self.undecided:
            print('UNDECIDED obligation=%s (%s after %.0fs)' % (ob.name, ob.result['verdict'], ob.result['time']))
        for m in self.infra:
            print('INFRASTRUCTURE: ' + m)
        samples = list(self.samples)
        for ob in props[:3] + props[-2:]:
            if ob.sample and len(samples) < 8:
                s = dict(ob.sample)
                s['verdict'] = ob.result['verdict'] if ob.result else None
                s['solver_s'] = round(ob.result['time'], 3) if ob.result else None
                samples.append(s)
        families = {}
        for ob in props:
            f = ob.family or ob.name.split(':')[0]
            families.setdefault(f, [0, 0])
            families[f][0] += 1
            families[f][1] += 1 if ob.status == 'discharged' else 0
        cov = dict(
            obligations=len(props),
            discharged=len(discharged),
            undecided=[ob.name for ob in self.undecided],
            inconclusive=[ob.name for ob in self.inconclusive],
            known_findings=[k for k, _ in self.known_hits],
            witnesses=len(wit),
            witnesses_ok=len([ob for ob in wit if ob.status == 'witness-ok']),
            evaluations=len(self.obs),
            distinct_nontrivial=len(set(ob.result.get('hash') for ob in props if ob.result)),
            rule='one SMT query per obligation (distinct by SHA-1 of the SMT-LIB script); an obligation is non-trivial if its script contains at least one term extracted from the IR of /repo',
            samples=samples or [dict(note='no obligations')],
            checker_cmd='/usr/bin/z3 (4.8.12) %s ; structural queries: (check-sat)' % smt.NRA_TACTIC,
            trusted_base=['clang-14 lowering of /repo sources to LLVM IR', 'irdump + Engine A interpreter (/verif/mv)', 'contract models in mv/models.py',
                          'reference operators in /verif/spec', 'z3 4.8.12',
                          'call-effect cache: get_list_mms (catalogue construction) is executed once per process and its recorded effect replayed; accepted only without symbolic decisions and with stores confined to new regions and its output vector; assumed to read no mutable state'],
            refuted_concretely=[ob.name for ob in props if ob.result and ob.result.get('refuted_concretely')],
            explanation='Bounded/unbounded symbolic checking: the functions listed in functions_encoded are executed symbolically from the clang IR of /repo\'s working tree; '
                        'each obligation is the negation of the property over all symbolic inputs and is discharged by an unsat verdict of the SMT solver. '
                        'Bounds: %s' % json.dumps(self.bounds, sort_keys=True),
            functions_encoded=sorted(self.functions)[:400],
            functions_encoded_count=len(self.functions),
            bounds=self.bounds,
            solver_time_s=round(solver_time, 2),
            queries=len(self.obs),
            families=families,
            translator_validation=self.validation,
            max_rss_mb=int(resource.getrusage(resource.RUSAGE_CHILDREN).ru_maxrss / 1024),
            exhaustive=False,
        )
        cov.update(self.extra_cov)
        ev = dict(property_id=self.pid, tier=self.tier, seed=self.seed, level=self.level, coverage=cov,
                  assumptions=self.assumptions, wall_s=round(time.time() - self.t0, 2), violations=len(self.violations))
        evdir = os.environ.get('VERIF_EVIDENCE_DIR') or os.path.join(VERIF, 'evidence')
        os.makedirs(evdir, exist_ok=True)
        with open(os.path.join(evdir, self.pid + '.json'), 'w') as fh:
            json.dump(ev, fh, indent=1, default=str)
        print('%s tier=%s obligations=%d discharged=%d undecided=%d inconclusive=%d known=%d violations=%d witnesses=%d/%d solver=%.1fs wall=%.1fs' % (
            self.pid, self.tier, len(props), len(discharged), len(self.undecided), len(self.inconclusive), len(self.known_hits),
            len(self.violations), cov['witnesses_ok'], len(wit), solver_time, time.time() - self.t0))
        shutil.rmtree(self.scratch, ignore_errors=True)
        if self.violations:
            return 1
        if self.infra:
            return 2
        return 0


def main(pid, body):
    chk = Check(pid)
    try:
        body(chk)
        rc = chk.finish()
    except Exception:
        traceback.print_exc()
        print('INFRASTRUCTURE: check %s crashed' % pid)
        shutil.rmtree(chk.scratch, ignore_errors=True)
        rc = 2
    sys.exit(rc)
