"""Helpers shared by the formula-layer checks (C01-C08, C20): extraction of evaluator terms,
reference-vs-library identity obligations, concrete replay and translator validation."""
import random
from fractions import Fraction
import terms as tm
from terms import T, D
from exec import ExecError, merge_paths, pc_term
import replay as rp

X, Y, Z, TT = tm.sym('x'), tm.sym('y'), tm.sym('z'), tm.sym('t')
R_ = tm.sym('r')
COORD = {'x': X, 'y': Y, 'z': Z, 't': TT, 'r': R_}

API = {'eval_q': 'masa_eval_source', 'eval_exact': 'masa_eval_exact', 'eval_g': 'masa_eval_grad'}
SPECIAL_API = {'eval_likelyhood': 'masa_eval_likelyhood', 'eval_loglikelyhood': 'masa_eval_loglikelyhood',
               'eval_prior': 'masa_eval_prior', 'eval_posterior': 'masa_eval_posterior',
               'eval_cen_mom': 'masa_eval_central_moment', 'eval_post_mean': 'masa_eval_posterior_mean',
               'eval_post_var': 'masa_eval_posterior_variance'}


def api_name(meth):
    if meth in SPECIAL_API:
        return SPECIAL_API[meth]
    for k, v in API.items():
        if meth.startswith(k + '_'):
            return v + meth[len(k):]
    raise KeyError(meth)


class SolView(object):
    """one catalogue solution, symbolised: parameters are real symbols named after the registered names"""

    def __init__(self, chk, world, name, scalar, cache_prefix='cache'):
        self.chk = chk
        self.w = world
        self.name = name
        self.scalar = scalar
        st, sol = world.find(scalar, name)
        self.sol = sol
        self.st = st.clone()
        self.defaults = {}
        for pname, (idx, a) in sol['params'].items():
            if a is not None:
                e = self.st.mem.get((a.rid, a.off))
                if e is not None and isinstance(e[1], T) and tm.isc(e[1]):
                    self.defaults[pname] = e[1].p
        self.P = world.symbolize(self.st, sol, cache_prefix=cache_prefix)
        self.terms = {}
        self.binding_obligation()

    def binding_obligation(self):
        """the formulas are stated 'in the current parameters': every registered name must be bound to a member of its own (two names on one
        member make a later masa_set_param of the one silently overwrite the other -- the evaluators then use values the caller never assigned)"""
        done = self.chk.__dict__.setdefault('_bindings_done', set())
        if (self.name, self.scalar) in done:
            return
        done.add((self.name, self.scalar))
        by_addr, unbound = {}, []
        for pname, (idx, a) in self.sol['params'].items():
            if a is None:
                unbound.append(pname)
            else:
                by_addr.setdefault((a.rid, a.off), []).append(pname)
        shared = sorted(sorted(v_) for v_ in by_addr.values() if len(v_) > 1)
        names = list(self.sol['params'])
        view = self

        def replay(ob, model):
            import replay as rp
            cxx = rp.SCALAR_CXX[view.scalar]
            lines = ['masa_init<Scalar>("h","%s"); const char* n_[] = {%s}; const int N = %d; int bad = 0;' % (view.name, ', '.join('"%s"' % n for n in names), len(names)),
                     'for(int pass = 0; pass < 2; pass++) {',
                     '  for(int k = 0; k < N; k++) { int i = pass ? N-1-k : k; masa_set_param<Scalar>(n_[i], (Scalar)(1.5 + 0.25*i + pass)); }',
                     '  for(int i = 0; i < N; i++) if(masa_get_param<Scalar>(n_[i]) != (Scalar)(1.5 + 0.25*i + pass)) { bad++; printf("\\nR clobbered %s pass %d\\n", n_[i], pass); }',
                     '}', 'printf("\\nR bindings_ok %d\\n", bad == 0);']
            src = '#include <masa.h>\n#include <cstdio>\nusing namespace MASA;\ntypedef %s Scalar;\nint main(){\n%s\n return 0;}\n' % (cxx, '\n'.join(lines))
            rc, out, err = view.chk.lib().run(src)
            if 'R bindings_ok 1' not in out:
                path = view.chk.save_replay(ob, dict(obligation=ob.name, stdout=out[-1500:], rc=rc, shared=shared), src)
                return dict(reproduced=True, path=path, detail='%s<%s>: parameters set by name (ascending, then descending order) do not all read back: %s' % (
                    view.name, view.scalar, '; '.join(l for l in out.splitlines() if l.startswith('R clobbered'))[:200]))
            return dict(reproduced=False, path=None, detail='real library: every parameter reads back')
        # ... and the same registration (names, default values) in a release build: assert() is compiled away with -DNDEBUG, so a
        #     registration or initialisation call written inside an assert leaves the solution without (some of) its parameters
        diff = []
        try:
            if not getattr(self.chk, 'config_extra', ()):
                wn = self.chk.world(extra=('-DNDEBUG',))
                stn, soln = wn.find(self.scalar, self.name)
                dn = {}
                for pname, (idx, a) in soln['params'].items():
                    e = stn.mem.get((a.rid, a.off)) if a is not None else None
                    dn[pname] = e[1].p if e is not None and isinstance(e[1], T) and tm.isc(e[1]) else None
                for pname in sorted(set(self.sol['params']) | set(dn)):
                    if pname not in dn or pname not in self.sol['params'] or dn.get(pname) != self.defaults.get(pname):
                        diff.append(pname)
        except Exception as e_:
            self.chk.notes.append('NDEBUG registration comparison of %s<%s> not run: %r' % (self.name, self.scalar, e_))
        defaults = dict(self.defaults)

        def replay_nd(ob, model):
            import replay as rp
            from replay import Lib
            cxx = rp.SCALAR_CXX[view.scalar]
            lit = lambda q: '(Scalar)%s/(Scalar)%s' % (('%dL' % q.numerator) if abs(q.numerator) > 2 ** 31 else q.numerator, ('%dL' % q.denominator) if q.denominator > 2 ** 31 else q.denominator)
            chk_ = ' '.join('{ Scalar g_ = masa_get_param<Scalar>("%s"); Scalar w_ = %s; Scalar d_ = g_ > w_ ? g_ - w_ : w_ - g_; if(!(d_ <= (Scalar)1e-12 * (w_ < 0 ? -w_ : w_) + (Scalar)1e-300)) { bad++; printf("\\nR differs %s\\n"); } }' % (n, lit(Fraction(defaults[n])), n)
                            for n in names if defaults.get(n) is not None)
            src = '#include <masa.h>\n#include <cstdio>\nusing namespace MASA;\ntypedef %s Scalar;\nint main(){\n masa_init<Scalar>("h","%s"); int bad = 0;\n %s\n printf("\\nR release_build_defaults_ok %%d\\n", bad == 0);\n return 0;}\n' % (cxx, view.name, chk_)
            rc, out, err = Lib(view.chk.scratch, extra=('-DNDEBUG',)).run(src)
            if 'R release_build_defaults_ok 1' not in out:
                path = view.chk.save_replay(ob, dict(obligation=ob.name, stdout=out[-1500:], rc=rc, build='-DNDEBUG', differing=diff[:8]), src)
                return dict(reproduced=True, path=path, detail='%s<%s> built with -DNDEBUG: registered parameters/defaults differ from the default build: %s' % (
                    view.name, view.scalar, '; '.join(l for l in out.splitlines() if l.startswith('R differs') or 'ERROR' in l)[:200]))
            return dict(reproduced=False, path=None, detail='real -DNDEBUG library: same defaults')
        self.chk.paths_clean('%s<%s>:same-registered-parameters-and-defaults-in-a-release-build(-DNDEBUG)' % (self.name, self.scalar), [tm.TRUE] if diff else [],
                             key='%s:parameter-binding:NDEBUG' % self.name, family='parameter-binding', sample=dict(obligation='registration with -DNDEBUG', differing=diff[:8]), replay=replay_nd)
        self.chk.paths_clean('%s<%s>:every-registered-parameter-is-bound-to-a-member-of-its-own' % (self.name, self.scalar), [tm.TRUE] if (shared or unbound) else [],
                             key='%s:parameter-binding' % self.name, family='parameter-binding', sample=dict(obligation='registration', shared_members=shared[:4], unbound=unbound[:4]), replay=replay)

    def p(self, n):
        return self.P[n]

    def has(self, meth, arity, extra=''):
        return self.w.method(self.sol, meth, arity, extra) in self.w.prog.functions

    def term(self, meth, args, extra='', extra_args=(), max_paths=64):
        """symbolic result of Class::meth(args...) merged over all paths -> term"""
        key = (meth, tuple(a.id if isinstance(a, T) else a for a in args), extra)
        if key in self.terms:
            return self.terms[key]
        # resolved as the API's virtual call resolves it (a member that does not override the base declaration is not reached)
        fn = self.w.dispatch(self.sol, meth, len(args), extra)
        if fn not in self.w.prog.functions:
            raise KeyError(fn)
        paths = self.w.run_paths(self.st, fn, [self.sol['ptr']] + list(args) + list(extra_args), max_paths)
        for p in paths:
            if p['error'] is not None:
                raise ExecError('%s: %s' % (fn, p['error']))
            if p['terminal'] is not None:
                raise ExecError('%s: terminal %r' % (fn, p['terminal']))
        self.chk.functions.add(fn)
        for c in self.w.ex.called:
            if c in self.w.prog.functions:
                self.chk.functions.add(c)
        self.w.ex.called = set()
        t = merge_paths(paths)
        self.terms[key] = t
        self.last_paths = paths
        return t


def magnitude(term, env):
    """sum of |top-level addends| of term at env (the scale against which roundoff is measured)"""
    adds = []
    stack = [term]
    while stack:
        t = stack.pop()
        if t.op in ('add', 'sub'):
            stack.extend(t.a)
        elif t.op == 'neg':
            stack.append(t.a[0])
        else:
            adds.append(t)
    if len(adds) > 400:
        adds = adds[:400]
    vals = tm.evalf(adds, env, rp.mp)
    return sum(abs(v) for v in vals if rp.mp.isfinite(v))


def magnitude_uf(term, env, ufs):
    adds = []
    stack = [term]
    while stack:
        t = stack.pop()
        if t.op in ('add', 'sub'):
            stack.extend(t.a)
        elif t.op == 'neg':
            stack.append(t.a[0])
        else:
            adds.append(t)
    vals = tm.evalf(adds[:400], env, rp.mp, ufs)
    return sum(abs(v) for v in vals if rp.mp.isfinite(v))


def rand_env(rng, names, coords, ranges=None):
    env = {}
    for n in sorted(names):
        lo, hi = (ranges or {}).get(n, (Fraction(1, 2), Fraction(3, 2)))
        k = rng.randint(0, 256)
        env[n] = lo + (hi - lo) * Fraction(k, 256)
    for c in coords:
        lo, hi = (ranges or {}).get(c, (Fraction(1, 5), Fraction(4, 5)))
        env[c] = lo + (hi - lo) * Fraction(rng.randint(0, 256), 256)
    return env


def make_replay(chk, view, meth, argsyms, lib, ref, ranges=None, int_args=(), threshold=Fraction(1, 10 ** 6), extra_steps=()):
    """replay closure for an identity obligation lib == ref of view.meth(argsyms)"""
    def replay(ob, model):
        rng = random.Random(chk.seed * 7919 + 17)
        lb = chk.lib()
        api = api_name(meth)
        names = [n for n in view.P]
        coords = [a.p for a in argsyms if isinstance(a, T) and a.op == 'sym']
        steps = [('init', view.scalar, 'h', view.name)]
        envs = []
        zero_names = [n for n in names if model and model.get(n) == 0][:6]
        # parameters the obligation assumes to be non-zero and nothing else (e.g. the reference length L): the sampling ranges sit around the
        # positive defaults, so each of them is also evaluated with the other sign (one at a time; the obligation quantifies over both signs)
        sign_free = []
        for c_ in getattr(ob, 'assumed', ()):
            if c_.op == 'not' and c_.a and c_.a[0].op == 'eq' and len(c_.a[0].a) == 2:
                for a_, b_ in (c_.a[0].a, c_.a[0].a[::-1]):
                    if a_.op == 'sym' and a_.p in names and tm.isc(b_) and b_.p == 0 and a_.p not in sign_free:
                        sign_free.append(a_.p)
        # only where every assumption of the obligation has the form parameter != constant: then the sign-flipped points satisfy all of
        # them by construction (field-positivity assumptions such as rho > 0 could be broken by a sign flip, so those obligations keep their points)
        def _simple(c_):
            return c_.op == 'not' and c_.a and c_.a[0].op == 'eq' and len(c_.a[0].a) == 2 and any(
                a_.op == 'sym' and tm.isc(b_) for a_, b_ in (c_.a[0].a, c_.a[0].a[::-1]))
        if not all(_simple(c_) for c_ in getattr(ob, 'assumed', ())):
            sign_free = []
        sign_free = sign_free[:4]
        for i in range(6 + len(zero_names) + len(sign_free)):
            env = rand_env(rng, names, coords, ranges)
            if i >= 6 + len(zero_names):
                n_ = sign_free[i - 6 - len(zero_names)]
                env[n_] = -env[n_]
            elif i >= 6:
                env[zero_names[i - 6]] = Fraction(0)     # one special value of the counterexample at a time, everything else generic
            if i == 5:
                # same point as the previous evaluation, other parameter values (anything remembered per point would show)
                for c_ in coords:
                    env[c_] = envs[4][c_]
            if i < 2 and model:
                # start from the solver's counterexample: its parameter values (point i=0: also its coordinates), the rest generic.
                # Special parameter values (a coefficient that is exactly 0, two equal parameters) matter for guarded code paths.
                for n in names + (coords if i == 0 else []):
                    v_ = model.get(n)
                    if v_ is not None and abs(v_) < 10 ** 6:
                        env[n] = v_
            if i in (2, 3) and model:
                # only the SPECIAL values of the counterexample (parameters that are exactly 0 -- one of them at a time in the extra points --, parameters that
                # coincide), everything else generic: the solver is free to pick degenerate values for the parameters a guard does not mention
                zeros = [n for n in names if model.get(n) == 0]
                for n in (zeros if i == 2 else []):
                    env[n] = Fraction(0)
                if i == 2:
                    byval = {}
                    for n in names:
                        v_ = model.get(n)
                        if v_ is not None and v_ != 0:
                            byval.setdefault(v_, []).append(n)
                    for grp in byval.values():
                        for n in grp[1:]:
                            env[n] = env[grp[0]]
            envs.append(env)
            for n in names:
                steps.append(('set', view.scalar, n, env[n]))
            steps.extend(extra_steps)
            args = [env[a.p] if isinstance(a, T) else a for a in argsyms]
            steps.append(('eval', view.scalar, api, args, 'p%d' % i))
        src = rp.driver_source(steps)
        rc, out, err = lb.run(src)
        res = rp.parse_results(out)
        worst = None
        detail = []
        for i, env in enumerate(envs):
            e = {k: rp.mp.mpf(v.numerator) / rp.mp.mpf(v.denominator) for k, v in env.items()}
            try:
                rv = tm.evalf([ref], e, rp.mp)[0]
                M = magnitude(ref, e) + abs(rv)
                try:
                    lv = tm.evalf([lib], e, rp.mp)[0]
                except KeyError:
                    lv = None       # the library term mentions state no API call sets (remembered values): only the real library's value counts
            except Exception as ex:
                detail.append('point %d: reference not evaluable (%r)' % (i, ex))
                continue
            got = res.get('p%d' % i)
            if got is None or not rp.mp.isfinite(got) or not rp.mp.isfinite(rv):
                detail.append('point %d: non-finite (lib=%s ref=%s)' % (i, got, rv))
                continue
            if lv is not None:
                chk.validation['points'] += 1
                if abs(got - lv) > Fraction(1, 10 ** 9) * (M + abs(lv)):
                    chk.validation['mismatches'] += 1
                    chk.infra.append('ENCODING MISMATCH %s %s: term=%s library=%s' % (view.name, meth, rp.mp.nstr(lv, 20), rp.mp.nstr(got, 20)))
            d = abs(got - rv)
            if d > threshold * M:
                worst = (i, got, rv, M)
        data = dict(obligation=ob.name, solution=view.name, scalar=view.scalar, api=api,
                    envs=[{k: str(v) for k, v in e.items()} for e in envs], stdout=out, detail=detail)
        if worst is not None:
            i, got, rv, M = worst
            data['failing_point'] = i
            data['library'] = rp.mp.nstr(got, 25)
            data['reference'] = rp.mp.nstr(rv, 25)
            data['scale'] = rp.mp.nstr(M, 10)
            path = chk.save_replay(ob, data, src)
            return dict(reproduced=True, path=path, detail='%s<%s> %s: library=%s reference=%s at generic point %d' % (
                view.name, view.scalar, api, rp.mp.nstr(got, 17), rp.mp.nstr(rv, 17), i))
        return dict(reproduced=False, path=None, detail='; '.join(detail))
    return replay


def validate_terms(chk, items, ranges=None, npoints=2):
    """translator validation (§3.7): items = [(view, meth, argsyms, libterm)]; compares the extracted term
    (mpmath, 50 digits) with the value the real library returns through the public API."""
    if not items:
        return
    rng = random.Random(chk.seed * 104729 + 5)
    lb = chk.lib()
    steps = []
    checks = []
    byview = {}
    for it in items:
        byview.setdefault(id(it[0]), []).append(it)
    n = 0
    for vid, its in byview.items():
        view = its[0][0]
        steps.append(('init', view.scalar, 'v%d' % n, view.name))
        names = list(view.P)
        for k in range(npoints):
            coords = set()
            for _, _, argsyms, _ in its:
                for a in argsyms:
                    if isinstance(a, T) and a.op == 'sym':
                        coords.add(a.p)
            env = rand_env(rng, names, sorted(coords), ranges)
            for nm in names:
                steps.append(('set', view.scalar, nm, env[nm]))
            for (_, meth, argsyms, term) in its:
                args = [env[a.p] if isinstance(a, T) else a for a in argsyms]
                tag = 'q%d' % len(checks)
                steps.append(('eval', view.scalar, api_name(meth), args, tag))
                checks.append((tag, view, meth, term, env))
        n += 1
    src = rp.driver_source(steps)
    rc, out, err = lb.run(src)
    res = rp.parse_results(out)
    for tag, view, meth, term, env in checks:
        got = res.get(tag)
        e = {k: rp.mp.mpf(v.numerator) / rp.mp.mpf(v.denominator) for k, v in env.items()}
        try:
            lv = tm.evalf([term], e, rp.mp)[0]
            M = magnitude(term, e) + abs(lv)
        except Exception:
            continue
        if got is None or not rp.mp.isfinite(got) or not rp.mp.isfinite(lv):
            continue
        chk.validation['points'] += 1
        if abs(got - lv) > Fraction(1, 10 ** 9) * M:
            chk.validation['mismatches'] += 1
            chk.infra.append('ENCODING MISMATCH %s<%s> %s: term=%s library=%s' % (view.name, view.scalar, meth, rp.mp.nstr(lv, 20), rp.mp.nstr(got, 20)))


class ApiView(object):
    """A solution reached through the public C++ API: masa_init executed on the IR, then evaluators
    called through MASA::masa_eval_*<Scalar>, i.e. through the registry and the virtual dispatch."""

    def __init__(self, chk, world, name, scalar, handle='h'):
        import sol as S
        self.chk, self.w, self.name, self.scalar = chk, world, name, scalar
        st = world.base.clone()
        S.api_init(world, st, scalar, handle, name)
        self.obj, self.reg_rid = S.selected_object(world, st, scalar)
        self.sol = world.describe(st, self.obj, scalar)
        st.events = []
        st.writes = []
        self.st_concrete = st.clone()      # post-masa_init state with the default parameter values
        self.st = st
        self.P = world.symbolize(st, self.sol, cache_prefix='cache')
        self.terms = {}

    def sig(self, args):
        s = []
        for a in args:
            if isinstance(a, T) and a.sort == 'I':
                s.append('int')
            elif isinstance(a, int):
                s.append('int')
            else:
                s.append(self.scalar)
        return ', '.join(s)

    def has_api(self, api, args):
        import sol as S
        try:
            S.api_fn(self.w, api, self.scalar, self.sig(args))
            return True
        except KeyError:
            return False

    def paths(self, api, args, max_paths=64):
        import sol as S
        fn = S.api_fn(self.w, api, self.scalar, self.sig(args))
        self.w.ex.called = set()
        paths = self.w.ex.explore(self.st, lambda ex: ex.call(fn, list(args)), max_paths)
        self.chk.functions.add(fn)
        for c in self.w.ex.called:
            if c in self.w.prog.functions:
                self.chk.functions.add(c)
        return paths

    def term(self, api, args):
        key = (api, tuple(a.id if isinstance(a, T) else a for a in args))
        if key not in self.terms:
            paths = self.paths(api, args)
            for p in paths:
                if p['error'] is not None:
                    raise ExecError('%s: %s' % (api, p['error']))
                if p['terminal'] is not None:
                    raise ExecError('%s: terminal %r' % (api, p['terminal']))
            self.terms[key] = (merge_paths(paths), paths)
        return self.terms[key][0]


class RegView(ApiView):
    """Like ApiView, but the registry state is constructed directly: the catalogue object built by the real
    constructor (get_list_mms executed on the IR) is made the selected solution by writing _master_pointer.
    Used where masa_init itself is not the subject (C15, C10) -- 'drive the unit, construct the state directly'."""

    def __init__(self, chk, world, name, scalar):
        self.chk, self.w, self.name, self.scalar = chk, world, name, scalar
        st0, sol = world.find(scalar, name)
        st = st0.clone()
        reg = [n for n in st.gmap if ('masa_master_double' if scalar == 'double' else 'masa_master_longdouble') in n][0]
        self.reg_rid = st.gmap[reg]
        st.mem[(self.reg_rid, 0)] = (8, sol['ptr'])
        self.obj = sol['ptr']
        self.sol = sol
        st.events = []
        st.writes = []
        self.st = st
        self.P = world.symbolize(st, sol, cache_prefix='cache')
        self.terms = {}
