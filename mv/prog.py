"""Loads the irdump JSON of all units into one linked program (DESIGN.md §2)."""
import json
import os


class Program(object):
    def __init__(self):
        self.functions = {}     # linked name -> fn dict (defined)
        self.decls = {}         # name -> fn dict (declared only)
        self.globals = {}       # linked name -> global dict
        self.fn_module = {}
        self.modules = {}
        self.aliases = {}

    def load_dir(self, d, units=None):
        for f in sorted(os.listdir(d)):
            if not f.endswith('.json'):
                continue
            if units is not None and f[:-5] not in units:
                continue
            self.load(os.path.join(d, f))
        return self

    def load(self, path):
        mod = os.path.basename(path)[:-5]
        with open(path) as fh:
            data = json.load(fh)
        self.modules[mod] = data
        for name, g in data['globals'].items():
            ln = self.link_name(mod, name, g.get('internal'))
            g['module'] = mod
            g['name'] = ln
            if g.get('decl') and ln in self.globals:
                continue
            if ln in self.globals and not self.globals[ln].get('decl') and g.get('decl'):
                continue
            if ln in self.globals and not self.globals[ln].get('decl'):
                continue     # linkonce duplicate
            self.globals[ln] = g
        for name, a in data.get('aliases', {}).items():
            if a.get('k') == 'fn':
                self.aliases[name] = a['name']
        for name, f in data['functions'].items():
            ln = self.link_name(mod, name, f.get('internal'))
            f['module'] = mod
            f['name'] = ln
            if f.get('decl'):
                self.decls.setdefault(ln, f)
                continue
            if ln in self.functions:
                continue
            self.functions[ln] = f
            self._index(f)

    @staticmethod
    def link_name(mod, name, internal):
        return '%s::%s' % (mod, name) if internal else name

    def _index(self, f):
        # map instruction ids -> nothing needed; blocks are a list of lists in id order
        nargs = len(f['params'])
        f['nargs'] = nargs

    def resolve_fn(self, mod, name):
        """name as written in module `mod` -> linked name"""
        m = self.modules.get(mod)
        if m is not None:
            f = m['functions'].get(name)
            if f is not None and f.get('internal'):
                return '%s::%s' % (mod, name)
        return name

    def resolve_global(self, mod, name):
        m = self.modules.get(mod)
        if m is not None:
            g = m['globals'].get(name)
            if g is not None and g.get('internal'):
                return '%s::%s' % (mod, name)
        return name
