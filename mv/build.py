"""Compile /repo's current working tree to IR JSON (DESIGN.md §2.1) and, for replay, to a scratch g++ -O0 library."""
import os
import subprocess
import sys
import shutil
import tempfile
from concurrent.futures import ThreadPoolExecutor

HERE = os.path.dirname(os.path.abspath(__file__))
VERIF = os.path.dirname(HERE)
REPO = os.environ.get('MASA_REPO', '/repo')
UNITS = open(os.path.join(HERE, 'units.txt')).read().split()
CLANG_FLAGS = ['-std=c++11', '-O1', '-ffp-contract=off', '-fno-builtin', '-fno-vectorize', '-fno-slp-vectorize',
               '-fno-unroll-loops', '-I' + os.path.join(VERIF, 'stubs'), '-I' + REPO, '-I' + os.path.join(REPO, 'src'),
               '-S', '-emit-llvm', '-w']
IRDUMP = os.path.join(VERIF, 'bin', 'irdump')


def scratch(prefix='masa-verif-'):
    return tempfile.mkdtemp(prefix=prefix, dir=os.environ.get('VERIF_SCRATCH', '/tmp'))


def ensure_irdump():
    src = os.path.join(HERE, 'irdump.cpp')
    if os.path.exists(IRDUMP) and os.path.getmtime(IRDUMP) >= os.path.getmtime(src):
        return
    os.makedirs(os.path.dirname(IRDUMP), exist_ok=True)
    # several checks may start at once on a fresh copy: one of them builds (under a lock, into a temporary name, then an atomic rename)
    import fcntl
    with open(IRDUMP + '.lock', 'w') as lock:
        fcntl.flock(lock, fcntl.LOCK_EX)
        if os.path.exists(IRDUMP) and os.path.getmtime(IRDUMP) >= os.path.getmtime(src):
            return
        cxx = subprocess.check_output(['llvm-config-14', '--cxxflags']).decode().split()
        cxx = [x for x in cxx if not x.startswith('-std=')]
        ld = subprocess.check_output(['llvm-config-14', '--ldflags', '--libs', 'core', 'irreader', 'support']).decode().split()
        tmp = '%s.tmp%d' % (IRDUMP, os.getpid())
        subprocess.check_call(['g++', '-O1', '-std=c++14', src] + cxx + ld + ['-o', tmp])
        os.rename(tmp, IRDUMP)


SKIPPED_UNITS = []


def compile_ir(outdir, units=None, extra=(), exceptions=False, tag=''):
    """returns dir with <unit>.json for every requested unit"""
    ensure_irdump()
    explicit = units is not None
    units = units or UNITS
    flags = list(CLANG_FLAGS) + list(extra)
    flags.append('-fexceptions' if exceptions else '-fno-exceptions')

    def one(u):
        src = os.path.join(REPO, 'src', u + '.cpp')
        ll = os.path.join(outdir, u + tag + '.ll')
        js = os.path.join(outdir, u + tag + '.json')
        p = subprocess.run(['clang++-14'] + flags + [src, '-o', ll], stderr=subprocess.PIPE, universal_newlines=True)
        if p.returncode != 0:
            return (u, 'clang: ' + p.stderr[-2000:])
        with open(js, 'w') as fh:
            p = subprocess.run([IRDUMP, ll], stdout=fh, stderr=subprocess.PIPE, universal_newlines=True)
        if p.returncode != 0:
            return (u, 'irdump: ' + p.stderr[-2000:])
        os.unlink(ll)
        return (u, None)
    with ThreadPoolExecutor(max_workers=16) as ex:
        res = list(ex.map(one, units))
    bad = [(u, e) for u, e in res if e]
    if bad and not explicit and all(u == 'cmasa' for u, _ in bad):
        # the C wrapper unit is a leaf (only C17/C18 and one C19 section need it): a check that did not ask for it runs without it;
        # the failure is recorded and reported by the checks that do need it
        SKIPPED_UNITS.append(bad[0])
        return outdir
    if bad:
        raise RuntimeError('IR extraction failed: %r' % (bad,))
    return outdir


def build_lib(outdir, extra=()):
    """g++ -O0 build of every library source of the default configuration -> list of object files"""
    srcs = sorted(f for f in os.listdir(os.path.join(REPO, 'src')) if f.endswith('.cpp') and f != 'version.cpp')

    def one(f):
        o = os.path.join(outdir, f[:-4] + '.o')
        p = subprocess.run(['g++', '-O0', '-g0', '-w', '-I' + REPO, '-I' + os.path.join(REPO, 'src'), '-c',
                            os.path.join(REPO, 'src', f), '-o', o] + list(extra), stderr=subprocess.PIPE, universal_newlines=True)
        if p.returncode != 0:
            return (f, p.stderr[-2000:])
        return (o, None)
    with ThreadPoolExecutor(max_workers=16) as ex:
        res = list(ex.map(one, srcs))
    bad = [(u, e) for u, e in res if e]
    if bad:
        raise RuntimeError('library build failed: %r' % (bad,))
    return [o for o, _ in res]


if __name__ == '__main__':
    if sys.argv[1] == '--setup':
        ensure_irdump()
        print('irdump built')
        sys.exit(0)
    d = sys.argv[1]
    os.makedirs(d, exist_ok=True)
    compile_ir(d)
    print(d)
