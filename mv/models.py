"""Contract models of the environment (DESIGN.md §3.2): std::string / vector / map / ostream,
libm, operator new/delete, exit/throw, llvm intrinsics.  Every model is part of the claim."""
import re
import subprocess
import terms as tm
from terms import T
from exec import Ptr, FnPtr, NULL, ExecError, Terminal, wrap

ASSUMPTIONS = [
    'std::string/std::map/std::vector/std::ostream behave per their documented contract (declaration-only stubs; libstdc++ internals not analysed)',
    'operator new succeeds (allocation failure out of scope)',
    'libm functions are their exact real-valued counterparts (formula layer); rounding is outside this layer',
    'symbolic integers are mathematical integers (no wrap) — only used for direction indices and small lengths',
]


class StrVal(object):
    """std::string object: value is a Python str or a term of sort 'S'"""
    def __init__(self, v=''):
        self.v = v

    def clone(self):
        return StrVal(self.v)


class CStr(object):
    """caller-supplied C string buffer"""
    def __init__(self, v):
        self.v = v

    def clone(self):
        return CStr(self.v)

    def cstr_value(self):
        return self.v


class VecVal(object):
    def __init__(self, es, buf, n=0):
        self.es = es
        self.buf = buf      # region id holding the elements
        self.n = n

    def clone(self):
        return VecVal(self.es, self.buf, self.n)


class MapVal(object):
    def __init__(self, vsize):
        self.entries = []   # list of (key, entry region id), kept sorted for concrete keys
        self.vsize = vsize
        self.end = None     # region id of the end sentinel

    def clone(self):
        m = MapVal(self.vsize)
        m.entries = list(self.entries)
        m.end = self.end
        return m


class StreamVal(object):
    def __init__(self):
        self.buf = ''
        self.pieces = []

    def clone(self):
        s = StreamVal()
        s.buf = self.buf
        s.pieces = list(self.pieces)
        return s


def demangle_all(names):
    names = list(names)
    mangled = [n.split('::', 1)[1] if ('::' in n and not n.startswith('_Z') and n.split('::', 1)[1].startswith('_Z')) else n for n in names]
    p = subprocess.run(['c++filt'], input='\n'.join(mangled) + '\n', stdout=subprocess.PIPE, universal_newlines=True)
    out = p.stdout.split('\n')
    return dict(zip(names, out))


LIBM = {}
for _f in tm.LIBM1 + ('pow', 'atan2'):
    LIBM[_f] = _f
    LIBM[_f + 'l'] = _f
    LIBM[_f + 'f'] = _f
LIBM['llvm.fabs.f64'] = 'fabs'
LIBM['llvm.fabs.f80'] = 'fabs'
LIBM['llvm.sqrt.f64'] = 'sqrt'
LIBM['llvm.sqrt.f80'] = 'sqrt'
LIBM['llvm.pow.f64'] = 'pow'
LIBM['llvm.pow.f80'] = 'pow'
for _f in ('sin', 'cos', 'exp', 'log'):
    LIBM['llvm.%s.f64' % _f] = _f
    LIBM['llvm.%s.f80' % _f] = _f


def elem_size(tyname):
    t = tyname.strip()
    if t.endswith('*'):
        return 8
    if t == 'long double':
        return 16
    if t in ('double', 'long', 'unsigned long'):
        return 8
    if t in ('int', 'unsigned int', 'float'):
        return 4
    if t in ('char', 'bool'):
        return 1
    raise ExecError('element size of %s unknown' % tyname)


class Models(object):
    def __init__(self, prog):
        self.prog = prog
        names = set(prog.decls.keys()) | set(prog.functions.keys())
        self.dm = demangle_all(names)
        self.cache = {}
        self.narrow_hook = None       # callback(ex, op, ft, tt, v) for C09's perturbation model
        self.libm_hook = None
        self.callback_hook = None     # symbolic function pointers (user callbacks)
        self.overrides = {}

    def demangled(self, name):
        d = self.dm.get(name)
        if d is None:
            d = demangle_all([name])[name]
            self.dm[name] = d
        return d

    def override(self, fname):
        return self.overrides.get(fname)

    def lookup(self, fname):
        if fname in self.overrides:
            return self.overrides[fname]
        if fname in self.cache:
            return self.cache[fname]
        m = self._lookup(fname)
        self.cache[fname] = m
        return m

    def _lookup(self, fname):
        base = fname
        if base in LIBM:
            f = LIBM[base]
            ty = 'f80' if (base.endswith('l') and base[:-1] in LIBM and base not in ('ceil', 'tanl')) or base.endswith('.f80') else 'f64'
            if base in ('ceil',):
                ty = 'f64'
            return lambda ex, args, inst, f=f, base=base: self.libm(ex, f, base, args, inst)
        if base.startswith('llvm.'):
            if base.startswith('llvm.memcpy') or base.startswith('llvm.memmove'):
                return m_memcpy
            if base.startswith('llvm.memset'):
                return m_memset
            if base.startswith(('llvm.lifetime', 'llvm.invariant', 'llvm.dbg', 'llvm.assume', 'llvm.experimental.noalias', 'llvm.stackprotector')):
                return lambda ex, args, inst: None
            if base.startswith('llvm.trap'):
                return lambda ex, args, inst: (_ for _ in ()).throw(Terminal('trap', 0))
            return None
        simple = {
            'exit': m_exit, 'abort': m_abort, '_Exit': m_quick_exit, '_exit': m_quick_exit, 'quick_exit': m_quick_exit, '__cxa_throw': m_throw, '__cxa_allocate_exception': m_alloc_exc,
            '__cxa_atexit': lambda ex, args, inst: 0, '__assert_fail': m_assert_fail, '__cxa_pure_virtual': m_pure,
            'strcpy': m_strcpy, 'strlen': m_strlen, 'strncpy': m_strncpy, 'strcmp': m_strcmp, 'memcpy': m_memcpy_ret,
            'printf': m_printf, 'puts': m_printf, 'putchar': m_printf, 'tolower': m_tolower, 'toupper': m_toupper,
            'free': m_delete, 'malloc': m_new, '__cxa_begin_catch': lambda ex, args, inst: NULL,
            '__cxa_end_catch': lambda ex, args, inst: None, '__gxx_personality_v0': None,
            '__cxa_free_exception': lambda ex, args, inst: None,
            '__cxa_guard_acquire': m_guard_acquire, '__cxa_guard_release': lambda ex, args, inst: None,
            '__cxa_guard_abort': lambda ex, args, inst: None,
        }
        if base in simple:
            return simple[base]
        d = self.demangled(fname)
        if d.startswith('operator new'):
            return m_new
        if d.startswith('operator delete'):
            return m_delete
        m = re.match(r'^std::string::(~?string|operator\S*|\w+)\((.*)\)( const)?$', d)
        if m:
            return string_method(m.group(1), m.group(2))
        m = re.match(r'^std::operator(==|!=|<=|>=|<|>|\+)\((std::string const&.*|char const\*, std::string const&)\)$', d)
        if m:
            return string_binop(m.group(1), m.group(2))
        m = re.match(r'^std::operator<<\(std::ostream&, std::string const&\)$', d)
        if m:
            return m_cout_string
        if d.startswith('std::endl(') or d.startswith('std::flush('):
            return lambda ex, args, inst: args[0]
        m = re.match(r'^std::ostream::(operator<<|precision|width|flush|clear|rdbuf|fail|good)\((.*)\)( const)?$', d)
        if m:
            return ostream_method(m.group(1), m.group(2))
        m = re.match(r'^std::(ostringstream|stringstream)::(~?\w+)\((.*)\)( const)?$', d)
        if m:
            return sstream_method(m.group(2), m.group(3))
        m = re.match(r'^std::vector<(.*)>::(~?vector|operator\S*|\w+)(<.*>)?\((.*)\)( const)?$', d)
        if m:
            return vector_method(m.group(1), m.group(2), m.group(4))
        m = re.match(r'^std::map<std::string, (.*)>::(~?map|operator\S*|\w+)\((.*)\)( const)?$', d)
        if m:
            return map_method(m.group(1), m.group(2), m.group(3))
        m = re.match(r'^std::__map_it<(.*)>::(__map_it|operator\S*|\w+)(<.*>)?\((.*)\)( const)?$', d)
        if m:
            return mapit_method(m.group(2))
        m = re.match(r'^std::pair<std::string( const)?, (.*)>::pair(?:<.*>)?\((.*)\)$', d)
        if m:
            return pair_ctor(m.group(2), m.group(3))
        m = re.match(r'^std::__vec_it<(.*)>::(__vec_it|operator\S*|\w+)(<.*>)?\((.*)\)( const)?$', d)
        if m:
            return vecit_method(m.group(1), m.group(2))
        return None

    # --------------------------------------------------------------------------------------
    def libm(self, ex, f, base, args, inst):
        a = [ex.fval(x) for x in args]
        if self.libm_hook is not None:
            r = self.libm_hook(ex, f, base, a, inst)
            if r is not None:
                return r
        return tm.fn(f, *a)

    def fpconv(self, ex, op, ft, tt, v):
        if self.narrow_hook is not None:
            return self.narrow_hook(ex, op, ft, tt, v)
        return v

    def virtual_unknown(self, ex, cv, args, ins):
        raise ExecError('virtual call on unknown dynamic class')

    def indirect_symbolic(self, ex, cv, args, ins):
        if self.callback_hook is not None:
            return self.callback_hook(ex, cv, args, ins)
        raise ExecError('indirect call through symbolic pointer %r' % (cv,))

    def ptr_compare(self, ex, a, b):
        # symbolic pointer vs concrete: equal only if declared so by the harness
        if isinstance(b, Ptr) and b == NULL and isinstance(a, T) and a.op != 'undef':
            return tm.FALSE     # symbolic callbacks/pointers supplied by the harness are non-null
        if isinstance(a, T) and a.op == 'undef':
            ex.st.event('uninit-use', 'branch', ex.cur_fn)
        raise ExecError('comparison of symbolic pointer %r with %r' % (a, b))


# ----------------------------------------------------------------------------------------------
# C runtime

def m_exit(ex, args, inst):
    ex.st.event('exit', args[0])
    raise Terminal('exit', args[0])


def m_quick_exit(ex, args, inst):
    # termination WITHOUT flushing stdio/iostream buffers and without static destructors: not the exit(code) the library documents
    ex.st.event('exit-without-flush', args[0])
    raise Terminal('_Exit', args[0])


def m_abort(ex, args, inst):
    ex.st.event('abort')
    raise Terminal('abort', None)


def m_pure(ex, args, inst):
    raise Terminal('pure-virtual', None)


def m_assert_fail(ex, args, inst):
    ex.st.event('assert-fail', ex.cstring(args[0]))
    raise Terminal('assert', ex.cstring(args[0]))


def m_alloc_exc(ex, args, inst):
    r = ex.st.new_region('exc', args[0], 'exception')
    r.kind = 'exc'
    return Ptr(r.rid, 0)


def m_throw(ex, args, inst):
    p = args[0]
    v = ex.load(p, 4, 'i32')
    tinfo = args[1]
    tname = ex.st.regions[tinfo.rid].name if isinstance(tinfo, Ptr) else str(tinfo)
    ex.st.event('throw', tname, v)
    raise Terminal('throw', (tname, v))


def m_guard_acquire(ex, args, inst):
    """function-local static: from an arbitrary process history the static may or may not have been initialised already.
    Both cases are explored; in the 'already initialised' case the static holds an arbitrary earlier value (a fresh symbol),
    because it was computed from whatever the state was at the first call."""
    g = args[0]
    r = ex.st.regions[g.rid]
    gname = r.name or ''
    done = tm.sym('static-initialised:%s' % gname, 'B')
    if ex.decide(done):
        var = '_Z' + gname[len('_ZGV'):] if gname.startswith('_ZGV') else None
        rid = ex.st.gmap.get(var) if var else None
        if rid is None and var:
            for nm, rr in ex.st.gmap.items():
                if nm.endswith(var):
                    rid = rr
        if rid is not None:
            g_ = ex.prog.globals.get(ex.st.regions[rid].name) or {}
            sz = g_.get('size', 8)
            ex.st.mem[(rid, 0)] = (10 if sz == 16 else sz, tm.sym('static:%s' % var))
        ex.st.event('static-local', gname, 'already-initialised')
        return 0
    ex.st.event('static-local', gname, 'first-call')
    return 1


def m_new(ex, args, inst):
    n = args[0]
    if not isinstance(n, int):
        raise ExecError('operator new with symbolic size')
    r = ex.st.new_region('heap', n, 'new@%s' % ex.cur_fn)
    ex.st.event('new', r.rid, n)
    return Ptr(r.rid, 0)


def m_delete(ex, args, inst):
    p = args[0]
    if p == NULL:
        return None
    if not isinstance(p, Ptr):
        raise ExecError('delete of %r' % (p,))
    r = ex.st.mut(p.rid)
    if r.kind not in ('heap',):
        ex.st.event('bad-free', r.kind, r.name, ex.cur_fn)
    elif not r.alive:
        ex.st.event('double-free', r.name, ex.cur_fn)
    r.alive = False
    ex.st.live_heap.discard(p.rid)
    ex.st.event('delete', p.rid)
    return None


def m_memcpy(ex, args, inst):
    dst, src, n = args[0], args[1], args[2]
    if not isinstance(n, int):
        raise ExecError('memcpy with symbolic length')
    copy_bytes(ex, dst, src, n)
    return None


def m_memcpy_ret(ex, args, inst):
    m_memcpy(ex, args, inst)
    return args[0]


def copy_bytes(ex, dst, src, n):
    ex.check_live(src, 'memcpy-src')
    ex.check_live(dst, 'memcpy-dst')
    st = ex.st
    ents = [(off, sz, v) for (rid, off), (sz, v) in st.mem.items() if rid == src.rid and src.off <= off and off + sz <= src.off + n]
    sides = [(off, v) for (rid, off), v in st.side.items() if rid == src.rid and src.off <= off < src.off + n]
    for off, sz, v in ents:
        ex.store(Ptr(dst.rid, dst.off + off - src.off), sz, v)
    r = st.regions[src.rid]
    if r.data is not None:
        for boff, b in r.data.items():
            lo = max(boff, src.off)
            hi = min(boff + len(b), src.off + n)
            for o in range(lo, hi):
                ex.store(Ptr(dst.rid, dst.off + o - src.off), 1, wrap(b[o - boff], 8))


def m_memset(ex, args, inst):
    dst, c, n = args[0], args[1], args[2]
    if not isinstance(n, int) or not isinstance(c, int):
        raise ExecError('memset symbolic')
    if c == 0 and n % 8 == 0:
        for o in range(0, n, 8):
            ex.store(Ptr(dst.rid, dst.off + o), 8, 0)
    else:
        for o in range(n):
            ex.store(Ptr(dst.rid, dst.off + o), 1, wrap(c, 8))
    return None


def m_strlen(ex, args, inst):
    s = ex.cstring(args[0])
    if isinstance(s, str):
        return len(s)
    return tm.uf('strlen', s, sort='I')


def m_strcpy(ex, args, inst):
    dst, src = args
    s = ex.cstring(src)
    write_cstring(ex, dst, s)
    return dst


def m_strncpy(ex, args, inst):
    dst, src, n = args
    s = ex.cstring(src)
    if isinstance(s, str) and isinstance(n, int):
        write_cstring(ex, dst, s[:n], nul=len(s) < n)
        return dst
    if isinstance(s, T) and isinstance(n, T):
        ln = tm.uf('strlen', s, sort='I')
        if n is ln:
            # exactly strlen(src) bytes: the terminating NUL is NOT copied -- the buffer keeps its old tail
            old = ex.st.side.get((dst.rid, dst.off))
            oldv = old.v if old is not None else tm.sym('oldbuf', 'S')
            oldv = oldv if isinstance(oldv, T) else tm.mk('str', (), oldv, 'S')
            write_cstring(ex, dst, tm.uf('unterminated-prefix-over', s, oldv, sort='S'))
            return dst
        if n.op == 'add' and ((n.a[0] is ln and tm.isc(n.a[1]) and n.a[1].p >= 1) or (n.a[1] is ln and tm.isc(n.a[0]) and n.a[0].p >= 1)):
            write_cstring(ex, dst, s)
            return dst
    raise ExecError('strncpy with length %r is not modelled' % (n,))


def m_strcmp(ex, args, inst):
    a, b = ex.cstring(args[0]), ex.cstring(args[1])
    if isinstance(a, str) and isinstance(b, str):
        return (a > b) - (a < b)
    raise ExecError('strcmp symbolic')


def write_cstring(ex, dst, s, nul=True):
    """write the C string s at dst (models strcpy): concrete bytes, or a symbolic whole-buffer value"""
    ex.check_live(dst, 'strcpy-dst')
    if isinstance(s, str):
        r = ex.st.regions[dst.rid]
        n = len(s) + (1 if nul else 0)
        if r.kind != 'ext' and r.size and dst.off + n > r.size:
            ex.st.event('oob', 'strcpy', r.kind, r.name, dst.off, n, r.size, ex.cur_fn)
        for i, ch in enumerate(s):
            ex.store(Ptr(dst.rid, dst.off + i), 1, wrap(ord(ch), 8))
        if nul:
            ex.store(Ptr(dst.rid, dst.off + len(s)), 1, 0)
    ex.st.side_set((dst.rid, dst.off), CStr(s))
    ex.st.writes.append((dst.rid, dst.off, -1))


def m_printf(ex, args, inst):
    try:
        s = ex.cstring(args[0]) if isinstance(args[0], Ptr) else args[0]
    except ExecError:
        s = '?'
    ex.st.event('printf', s)
    return 0


def m_tolower(ex, args, inst):
    c = args[0]
    if isinstance(c, int):
        return c + 32 if 65 <= c <= 90 else c
    return tm.uf('tolower', c, sort='I')


def m_toupper(ex, args, inst):
    c = args[0]
    if isinstance(c, int):
        return c - 32 if 97 <= c <= 122 else c
    return tm.uf('toupper', c, sort='I')


# ----------------------------------------------------------------------------------------------
# std::string

def get_str(ex, p):
    if not isinstance(p, Ptr):
        raise ExecError('string object address is %r' % (p,))
    ex.check_live(p, 'string')
    s = ex.st.side.get((p.rid, p.off))
    if s is None or not isinstance(s, StrVal):
        r = ex.st.regions[p.rid]
        if r.kind == 'ext':
            s = StrVal(tm.sym('extstr:%s+%d' % (r.name, p.off), 'S'))
            ex.st.side_set((p.rid, p.off), s)
            return s
        ex.st.event('uninit-use', 'string', ex.cur_fn)
        raise ExecError('use of unconstructed std::string at %s+%d in %s' % (r.name, p.off, ex.cur_fn))
    return s


def set_str(ex, p, v):
    ex.check_live(p, 'string')
    ex.st.side_set((p.rid, p.off), StrVal(v))
    ex.st.writes.append((p.rid, p.off, 8))


def str_eq(ex, a, b):
    if isinstance(a, str) and isinstance(b, str):
        return 1 if a == b else 0
    ta = a if isinstance(a, T) else tm.mk('str', (), a, 'S')
    tb = b if isinstance(b, T) else tm.mk('str', (), b, 'S')
    if ta is tb:
        return 1
    return tm.cmp('eq', ta, tb)


def string_method(name, sig):
    def ctor(ex, args, inst):
        p = args[0]
        if sig == '':
            set_str(ex, p, '')
        elif sig.startswith('char const*'):
            set_str(ex, p, ex.cstring(args[1]))
        elif sig.startswith('std::string const&'):
            set_str(ex, p, get_str(ex, args[1]).v)
        else:
            raise ExecError('string ctor ' + sig)
        return None

    def dtor(ex, args, inst):
        p = args[0]
        get_str(ex, p)
        ex.st.side.pop((p.rid, p.off), None)
        return None

    def assign(ex, args, inst):
        p = args[0]
        if sig.startswith('char const*'):
            set_str(ex, p, ex.cstring(args[1]))
        else:
            set_str(ex, p, get_str(ex, args[1]).v)
        return p

    def empty(ex, args, inst):
        v = get_str(ex, args[0]).v
        if isinstance(v, str):
            return 1 if v == '' else 0
        return str_eq(ex, v, '')

    def copy_out(ex, args, inst):
        """size_type copy(char* dst, size_type n, size_type pos = 0) const: no terminator is written"""
        v = get_str(ex, args[0]).v
        dst, n = args[1], args[2]
        pos = args[3] if len(args) > 3 else 0
        if isinstance(v, str) and isinstance(n, int) and isinstance(pos, int):
            if pos > len(v):
                raise ExecError('std::string::copy position out of range (std::out_of_range)')
            piece = v[pos:pos + n]
            write_cstring(ex, dst, piece, nul=False)
            return len(piece)
        if isinstance(v, T) and pos == 0 and isinstance(n, T) and n is tm.uf('strlen', v, sort='I'):
            old = ex.st.side.get((dst.rid, dst.off))
            oldv = old.v if old is not None else tm.sym('oldbuf', 'S')
            oldv = oldv if isinstance(oldv, T) else tm.mk('str', (), oldv, 'S')
            write_cstring(ex, dst, tm.uf('unterminated-prefix-over', v, oldv, sort='S'))
            return n
        raise ExecError('std::string::copy with symbolic arguments is not modelled')

    def length(ex, args, inst):
        v = get_str(ex, args[0]).v
        if isinstance(v, str):
            return len(v)
        return tm.uf('strlen', v, sort='I')

    def c_str(ex, args, inst):
        p = args[0]
        v = get_str(ex, p).v
        r = ex.st.new_region('cstrbuf', (len(v) + 1) if isinstance(v, str) else 0, 'c_str')
        r.fresh = False
        if isinstance(v, str):
            r.data = {0: v.encode('latin1') + b'\0'}
        ex.st.side_set((r.rid, 0), CStr(v))
        return Ptr(r.rid, 0)

    def append(ex, args, inst):
        p = args[0]
        a = get_str(ex, p).v
        b = ex.cstring(args[1]) if sig.startswith('char const*') else get_str(ex, args[1]).v
        if isinstance(a, str) and isinstance(b, str):
            set_str(ex, p, a + b)
        else:
            set_str(ex, p, tm.uf('concat', a if isinstance(a, T) else tm.mk('str', (), a, 'S'), b if isinstance(b, T) else tm.mk('str', (), b, 'S'), sort='S'))
        return p

    def unsupported(ex, args, inst):
        raise ExecError('std::string::%s(%s) is not modelled by Engine A (character-level behaviour is C13/CBMC)' % (name, sig))

    def conc(ex, p):
        v = get_str(ex, p).v
        if not isinstance(v, str):
            raise ExecError('std::string::%s on a symbolic string is not modelled by Engine A' % name)
        return v

    def substr(ex, args, inst):
        v = conc(ex, args[1])
        pos = args[2]
        n = args[3] if len(args) > 3 else -1
        if not isinstance(pos, int) or not isinstance(n, int):
            raise ExecError('substr symbolic')
        if pos > len(v):
            ex.st.event('oob', 'string-substr', pos, len(v), ex.cur_fn)
        set_str(ex, args[0], v[pos:] if n < 0 else v[pos:pos + n])
        return None

    def push_back(ex, args, inst):
        v = conc(ex, args[0])
        set_str(ex, args[0], v + chr(args[1] & 0xff))
        return None

    def clear_(ex, args, inst):
        set_str(ex, args[0], '')
        return None

    def compare(ex, args, inst):
        a = get_str(ex, args[0]).v
        parts_ = [x.strip() for x in sig.split(',')]
        if len(parts_) >= 3 and parts_[0].startswith('unsigned long'):
            # compare(pos, n, str): substring [pos, pos+n) of *this against str
            pos, n = args[1], args[2]
            b = ex.cstring(args[3]) if parts_[2].startswith('char const*') else get_str(ex, args[3]).v
            if len(parts_) > 3:
                raise ExecError('std::string::compare(%s) is not modelled by Engine A' % sig)
            if isinstance(a, str) and isinstance(b, str) and isinstance(pos, int) and isinstance(n, int):
                if pos > len(a):
                    ex.st.event('oob', 'string-compare', pos, len(a), ex.cur_fn)
                sub = a[pos:pos + n]
                return (sub > b) - (sub < b)
            # symbolic operands: an uninterpreted predicate 'the substring equals b' of the operands (both outcomes are explored)
            tt = lambda v_: v_ if isinstance(v_, T) else (tm.mk('str', (), v_, 'S') if isinstance(v_, str) else tm.iconst(v_))
            r = tm.cmp('eq', tm.uf('substr_eq', tt(a), tt(pos), tt(n), tt(b), sort='I'), tm.iconst(1))
            return tm.ite(r, tm.iconst(0), tm.iconst(1))
        b = ex.cstring(args[1]) if sig.startswith('char const*') else get_str(ex, args[1]).v
        if isinstance(a, str) and isinstance(b, str):
            return (a > b) - (a < b)
        r = str_eq(ex, a, b)
        return tm.ite(r, tm.iconst(0), tm.iconst(1)) if isinstance(r, T) else (0 if r else 1)

    table = {'string': ctor, '~string': dtor, 'operator=': assign, 'assign': assign, 'empty': empty,
             'copy': copy_out, 'length': length, 'size': length, 'c_str': c_str, 'data': c_str, 'operator+=': append, 'append': append,
             'substr': substr, 'push_back': push_back, 'clear': clear_, 'compare': compare}
    return table.get(name, unsupported)


def string_binop(op, sig):
    parts = [x.strip() for x in sig.split(',')]

    def val(ex, a, kind):
        if kind.startswith('char const*'):
            return ex.cstring(a)
        return get_str(ex, a).v

    def f(ex, args, inst):
        if op == '+':
            # sret: args[0] is the result object
            a, b = val(ex, args[1], parts[0]), val(ex, args[2], parts[1])
            if isinstance(a, str) and isinstance(b, str):
                set_str(ex, args[0], a + b)
            else:
                raise ExecError('symbolic string concatenation')
            return None
        a, b = val(ex, args[0], parts[0]), val(ex, args[1], parts[1])
        if op == '==':
            return str_eq(ex, a, b)
        if op == '!=':
            r = str_eq(ex, a, b)
            return (1 - r) if isinstance(r, int) else tm.lnot(r)
        if op in ('<', '>', '<=', '>='):
            if isinstance(a, str) and isinstance(b, str):
                return 1 if {'<': a < b, '>': a > b, '<=': a <= b, '>=': a >= b}[op] else 0
            if a is b:
                return 1 if op in ('<=', '>=') else 0
            # symbolic strings: equal strings are not ordered; otherwise the order is an uninterpreted (but consistent) predicate
            r = str_eq(ex, a, b)
            eq = r if isinstance(r, int) else (1 if ex.decide(r) else 0)
            if eq:
                return 1 if op in ('<=', '>=') else 0
            ta = a if isinstance(a, T) else tm.mk('str', (), a, 'S')
            tb = b if isinstance(b, T) else tm.mk('str', (), b, 'S')
            lt = tm.uf('str_less', ta, tb, sort='B') if op in ('<', '<=') else tm.uf('str_less', tb, ta, sort='B')
            return 1 if ex.decide(lt) else 0
    return f


# ----------------------------------------------------------------------------------------------
# ostream

def is_cout(ex, p):
    r = ex.st.regions.get(p.rid)
    return r is not None and r.name in ('_ZSt4cout', '_ZSt4cerr')


def cout_failed(ex, events=None):
    """has std::cout been put into a failed state (and not cleared) on this path?  Output to a failed stream is discarded."""
    for e in reversed(ex.st.events if events is None else events):
        if e[0] == 'cout-clear':
            return False
        if e[0] == 'cout-fail':
            return True
    return False


def stream_out(ex, p, payload):
    s = ex.st.side.get((p.rid, p.off))
    if isinstance(s, StreamVal):
        s = ex.st.side_mut((p.rid, p.off))
        if not isinstance(payload, str):
            # a symbolic value (e.g. a symbolic handle name): kept as a piece; str() of such a stream is not modelled
            s.pieces = list(getattr(s, 'pieces', [])) + [payload]
            return
        s.buf += payload
        s.pieces = list(getattr(s, 'pieces', [])) + [payload]
    elif cout_failed(ex):
        ex.st.event('cout-dropped', payload)
    else:
        ex.st.event('cout', payload)


def m_cout_string(ex, args, inst):
    stream_out(ex, args[0], get_str(ex, args[1]).v)
    return args[0]


def ostream_method(name, sig):
    def out(ex, args, inst):
        v = args[1]
        if sig == 'char const*':
            v = ex.cstring(v)
        elif sig == 'char':
            v = chr(v & 0xff) if isinstance(v, int) else v
        elif sig.startswith('std::ostream& (*)'):
            if isinstance(v, FnPtr):
                d = ex.models.demangled(v.name)
                if d.startswith('std::endl'):
                    v = '\n'
                else:
                    v = ''
        elif isinstance(v, int) and isinstance(ex.st.side.get((args[0].rid, args[0].off)), StreamVal):
            v = str(v)
        stream_out(ex, args[0], v)
        return args[0]

    def prec(ex, args, inst):
        return 6

    def nothing(ex, args, inst):
        return args[0] if name == 'flush' else None

    def out_buf(ex, args, inst):
        # operator<<(streambuf*): inserts the characters of the source buffer; if NONE is inserted (empty source, null pointer) the
        # stream's failbit is set [ostream.inserters] -- every later insertion is then discarded until clear()
        src = args[1]
        sv = ex.st.side.get((src.rid, src.off)) if isinstance(src, Ptr) and src != NULL else None
        pieces = [x for x in getattr(sv, 'pieces', []) if not (isinstance(x, str) and x == '')] if isinstance(sv, StreamVal) else None
        if pieces is None and isinstance(sv, StreamVal) and sv.buf:
            pieces = [sv.buf]
        if not pieces:
            if isinstance(ex.st.side.get((args[0].rid, args[0].off)), StreamVal):
                return args[0]
            ex.st.event('cout-fail', 'operator<<(streambuf*) inserted no characters')
            return args[0]
        for x in pieces:
            stream_out(ex, args[0], x)
        return args[0]

    def rdbuf(ex, args, inst):
        return args[0]          # the stream object stands for its buffer

    def clear(ex, args, inst):
        if not isinstance(ex.st.side.get((args[0].rid, args[0].off)), StreamVal):
            ex.st.event('cout-clear')
        return None

    def failq(ex, args, inst):
        f_ = cout_failed(ex) and not isinstance(ex.st.side.get((args[0].rid, args[0].off)), StreamVal)
        return (1 if f_ else 0) if name == 'fail' else (0 if f_ else 1)
    if name == 'operator<<' and sig.startswith('std::streambuf*'):
        return out_buf
    return {'operator<<': out, 'precision': prec, 'width': prec, 'rdbuf': rdbuf, 'clear': clear, 'fail': failq, 'good': failq}.get(name, nothing)


def sstream_method(name, sig):
    def ctor(ex, args, inst):
        p = args[0]
        ex.st.side_set((p.rid, p.off), StreamVal())

    def dtor(ex, args, inst):
        p = args[0]
        ex.st.side.pop((p.rid, p.off), None)

    def strm(ex, args, inst):
        if sig == '':
            # string str() const  -> sret
            s = ex.st.side[(args[1].rid, args[1].off)]
            set_str(ex, args[0], s.buf)
            return None
        s = ex.st.side_mut((args[0].rid, args[0].off))
        s.buf = get_str(ex, args[1]).v
        return None
    return {'ostringstream': ctor, 'stringstream': ctor, '~ostringstream': dtor, '~stringstream': dtor, 'str': strm, 'rdbuf': lambda ex, args, inst: args[0]}[name]


# ----------------------------------------------------------------------------------------------
# std::vector

def get_vec(ex, p, es=None, mut=False):
    ex.check_live(p, 'vector')
    v = ex.st.side.get((p.rid, p.off))
    if isinstance(v, VecVal) and mut:
        v = ex.st.side_mut((p.rid, p.off))
    if not isinstance(v, VecVal):
        r = ex.st.regions[p.rid]
        ex.st.event('uninit-use', 'vector', ex.cur_fn)
        raise ExecError('use of unconstructed std::vector at %s+%d in %s' % (r.name, p.off, ex.cur_fn))
    return v


def new_vec(ex, p, es, n=0, fill=None):
    buf = ex.st.new_region('vecbuf', 0, 'vector-storage')
    buf.fresh = True
    v = VecVal(es, buf.rid, n)
    ex.st.side_set((p.rid, p.off), v)
    ex.st.writes.append((p.rid, p.off, 8))
    for i in range(n):
        ex.store(Ptr(buf.rid, i * es), es, fill(i) if fill else zero_of(es))
    buf.size = max(n * es, 0)
    return v


def zero_of(es):
    return tm.ZERO if es in (8, 16) else 0


def vec_elem_default(elty):
    t = elty.strip()
    if t.endswith('*'):
        return NULL
    if t in ('double', 'long double', 'float'):
        return tm.ZERO
    return 0


def vector_method(elty, name, sig):
    es = elem_size(elty)
    dflt = vec_elem_default(elty)

    def ctor(ex, args, inst):
        p = args[0]
        s = sig.strip()
        if s == '':
            new_vec(ex, p, es)
        elif s.startswith('unsigned long'):
            n = args[1]
            if not isinstance(n, int):
                raise ExecError('vector(n) with symbolic n')
            fill = None
            if ',' in s:
                val = ex.load(args[2], es, 'f64' if dflt is tm.ZERO else 'i64')
                fill = lambda i: val
            else:
                fill = lambda i: dflt
            new_vec(ex, p, es, n, fill)
        elif s.startswith('std::vector<'):
            src = get_vec(ex, args[1])
            v = new_vec(ex, p, es)
            copy_vec(ex, v, src)
        else:
            # range constructor (It first, It last): pointers into one region
            a, b = args[1], args[2]
            if not (isinstance(a, Ptr) and isinstance(b, Ptr) and a.rid == b.rid):
                raise ExecError('vector range ctor with %r %r' % (a, b))
            n = (b.off - a.off) // es
            if n < 0:
                ex.st.event('oob', 'vector-range', 'negative length', n, ex.cur_fn)
                n = 0
            new_vec(ex, p, es, n, lambda i: ex.load(Ptr(a.rid, a.off + i * es), es, 'f64'))
        return None

    def dtor(ex, args, inst):
        p = args[0]
        v = get_vec(ex, p)
        ex.st.mut(v.buf).alive = False
        ex.st.side.pop((p.rid, p.off), None)
        return None

    def assign(ex, args, inst):
        v = get_vec(ex, args[0], mut=True)
        src = get_vec(ex, args[1])
        if v is not src:
            copy_vec(ex, v, src)
        ex.st.writes.append((args[0].rid, args[0].off, 8))
        return args[0]

    def index(ex, args, inst):
        v = get_vec(ex, args[0])
        i = args[1]
        if isinstance(i, T):
            if tm.isc(i):
                i = int(i.p)
            else:
                if i.op == 'undef':
                    ex.st.event('uninit-use', 'index', ex.cur_fn)
                raise ExecError('vector index symbolic: %r' % (i,))
        if i < 0 or i >= v.n:
            ex.st.event('oob', 'vector-index', i, v.n, ex.cur_fn)
        return Ptr(v.buf, i * es)

    def size(ex, args, inst):
        return get_vec(ex, args[0]).n

    def empty(ex, args, inst):
        return 1 if get_vec(ex, args[0]).n == 0 else 0

    def resize(ex, args, inst):
        v = get_vec(ex, args[0], mut=True)
        n = args[1]
        if not isinstance(n, int):
            raise ExecError('vector resize symbolic')
        fillv = dflt
        if ',' in sig:
            fillv = ex.load(args[2], es if es != 16 else 10, 'f64' if dflt is tm.ZERO else ('ptr' if dflt is NULL else 'i32'))
        if ex.st.regions[v.buf].size < n * es:
            ex.st.mut(v.buf).size = n * es
        for i in range(v.n, n):
            ex.store(Ptr(v.buf, i * es), es, fillv)
        v.n = n
        ex.st.mut(v.buf).size = n * es
        ex.st.writes.append((args[0].rid, args[0].off, 8))
        return None

    def push_back(ex, args, inst):
        v = get_vec(ex, args[0], mut=True)
        val = ex.load(args[1], es, 'ptr' if dflt is NULL else ('f64' if dflt is tm.ZERO else 'i32'))
        ex.st.mut(v.buf).size = (v.n + 1) * es
        ex.store(Ptr(v.buf, v.n * es), es, val)
        v.n += 1
        ex.st.writes.append((args[0].rid, args[0].off, 8))
        return None

    def clear(ex, args, inst):
        v = get_vec(ex, args[0], mut=True)
        v.n = 0
        return None

    def begin(ex, args, inst):
        v = get_vec(ex, args[0])
        return Ptr(v.buf, 0)

    def end(ex, args, inst):
        v = get_vec(ex, args[0])
        return Ptr(v.buf, v.n * es)

    def at(ex, args, inst):
        v = get_vec(ex, args[0])
        i = args[1]
        if not isinstance(i, int) or i < 0 or i >= v.n:
            ex.st.event('oob', 'vector-at', i, v.n, ex.cur_fn)
            raise ExecError('std::vector::at out of range (std::out_of_range)')
        return Ptr(v.buf, i * es)

    def front(ex, args, inst):
        v = get_vec(ex, args[0])
        if v.n == 0:
            ex.st.event('oob', 'vector-front-empty', ex.cur_fn)
        return Ptr(v.buf, 0)

    def back(ex, args, inst):
        v = get_vec(ex, args[0])
        if v.n == 0:
            ex.st.event('oob', 'vector-back-empty', ex.cur_fn)
        return Ptr(v.buf, max(v.n - 1, 0) * es)

    def pop_back(ex, args, inst):
        v = get_vec(ex, args[0], mut=True)
        if v.n == 0:
            ex.st.event('oob', 'vector-pop_back-empty', ex.cur_fn)
        else:
            v.n -= 1
        return None

    def nothing(ex, args, inst):
        return None

    def data(ex, args, inst):
        return Ptr(get_vec(ex, args[0]).buf, 0)

    def elem_kind():
        return 'ptr' if dflt is NULL else ('f64' if dflt is tm.ZERO else 'i32')

    def erase(ex, args, inst):
        v = get_vec(ex, args[0], mut=True)
        first = args[1]
        last = args[2] if len(args) > 2 else Ptr(first.rid, first.off + es)
        if not (isinstance(first, Ptr) and isinstance(last, Ptr)) or first.rid != v.buf or last.rid != v.buf:
            raise ExecError('vector::erase with a foreign iterator')
        i, j = first.off // es, last.off // es
        if i < 0 or j > v.n or i > j:
            ex.st.event('oob', 'vector-erase-range', i, j, v.n, ex.cur_fn)
            return first
        tail = [ex.load(Ptr(v.buf, k * es), es, elem_kind()) for k in range(j, v.n)]
        for k, val in enumerate(tail):
            ex.store(Ptr(v.buf, (i + k) * es), es, val)
        v.n -= (j - i)
        ex.st.mut(v.buf).size = v.n * es
        ex.st.writes.append((args[0].rid, args[0].off, 8))
        return first

    def insert(ex, args, inst):
        v = get_vec(ex, args[0], mut=True)
        pos = args[1]
        if not isinstance(pos, Ptr) or pos.rid != v.buf:
            raise ExecError('vector::insert with a foreign iterator')
        i = pos.off // es
        val = ex.load(args[2], es, elem_kind())
        vals = [ex.load(Ptr(v.buf, k * es), es, elem_kind()) for k in range(i, v.n)]
        ex.st.mut(v.buf).size = (v.n + 1) * es
        ex.store(Ptr(v.buf, i * es), es, val)
        for k, x in enumerate(vals):
            ex.store(Ptr(v.buf, (i + 1 + k) * es), es, x)
        v.n += 1
        ex.st.writes.append((args[0].rid, args[0].off, 8))
        return pos

    def assign_range(ex, args, inst):
        v = get_vec(ex, args[0], mut=True)
        a, b = args[1], args[2]
        if isinstance(a, Ptr) and isinstance(b, Ptr) and a.rid == b.rid:
            n = (b.off - a.off) // es
            vals = [ex.load(Ptr(a.rid, a.off + k * es), es, elem_kind()) for k in range(max(n, 0))]
        elif isinstance(a, int):
            vals = [ex.load(b, es, elem_kind())] * a
            n = a
        else:
            raise ExecError('vector::assign arguments %r %r' % (a, b))
        ex.st.mut(v.buf).size = max(n, 0) * es
        for k, x in enumerate(vals):
            ex.store(Ptr(v.buf, k * es), es, x)
        v.n = max(n, 0)
        ex.st.writes.append((args[0].rid, args[0].off, 8))
        return None

    if name == 'assign':
        return assign_range
    table = {'erase': erase, 'insert': insert, 'vector': ctor, '~vector': dtor, 'operator=': assign, 'operator[]': index, 'size': size, 'empty': empty,
             'resize': resize, 'push_back': push_back, 'clear': clear, 'begin': begin, 'end': end,
             'at': at, 'front': front, 'back': back, 'pop_back': pop_back, 'reserve': nothing, 'data': data, 'capacity': size}
    if name not in table:
        return None
    return table[name]


def copy_vec(ex, v, src):
    if ex.st.regions[v.buf].size < src.n * v.es:
        ex.st.mut(v.buf).size = src.n * v.es          # assignment (re)allocates as needed
    for i in range(src.n):
        ex.store(Ptr(v.buf, i * v.es), v.es, ex.load(Ptr(src.buf, i * src.es), src.es, 'f64'))
    v.n = src.n
    ex.st.mut(v.buf).size = v.n * v.es


def vecit_method(elty, name):
    es = elem_size(elty.replace(' const', '').replace('const ', ''))

    def cur(ex, p):
        return ex.load(p, 8, 'ptr')

    def deref(ex, args, inst):
        return cur(ex, args[0])

    def inc(ex, args, inst):
        c = cur(ex, args[0])
        ex.store(args[0], 8, Ptr(c.rid, c.off + es))
        return args[0]

    def ne(ex, args, inst):
        return 0 if cur(ex, args[0]) == cur(ex, args[1]) else 1

    def eq(ex, args, inst):
        return 1 if cur(ex, args[0]) == cur(ex, args[1]) else 0

    def conv(ex, args, inst):
        if len(args) > 1:
            ex.store(args[0], 8, cur(ex, args[1]))
        return None
    return {'operator*': deref, 'operator->': deref, 'operator++': inc, 'operator!=': ne, 'operator==': eq, '__vec_it': conv}[name]


# ----------------------------------------------------------------------------------------------
# std::map<std::string, V>

def get_map(ex, p, mut=False):
    ex.check_live(p, 'map')
    m = ex.st.side.get((p.rid, p.off))
    if isinstance(m, MapVal) and mut:
        m = ex.st.side_mut((p.rid, p.off))
    if not isinstance(m, MapVal):
        r = ex.st.regions[p.rid]
        if r.kind == 'global' and not r.fresh:
            # statically constructed later / zero-initialised: treat as not yet constructed
            pass
        ex.st.event('uninit-use', 'map', ex.cur_fn)
        raise ExecError('use of unconstructed std::map at %s+%d in %s' % (r.name, p.off, ex.cur_fn))
    return m


def new_map(ex, p, vsize):
    m = MapVal(vsize)
    e = ex.st.new_region('mapend', 0, 'map-end')
    m.end = e.rid
    ex.st.side_set((p.rid, p.off), m)
    ex.st.writes.append((p.rid, p.off, 8))
    return m


def map_find(ex, m, key):
    for k, rid in m.entries:
        r = str_eq(ex, k, key)
        if isinstance(r, int):
            if r:
                return rid
        elif ex.decide(r):
            return rid
    return None


def map_insert(ex, m, key, vdefault):
    e = ex.st.new_region('entry', 8 + m.vsize, 'map-entry')
    ex.st.side_set((e.rid, 0), StrVal(key))
    ex.store(Ptr(e.rid, 8), m.vsize, vdefault)
    m.entries.append((key, e.rid))
    if all(isinstance(k, str) for k, _ in m.entries):
        m.entries.sort(key=lambda kv: kv[0])
    return e.rid


def map_method(vty, name, sig):
    vsize = elem_size(vty)
    vdef = NULL if vty.strip().endswith('*') else 0

    def ctor(ex, args, inst):
        if sig.strip() == '':
            new_map(ex, args[0], vsize)
        else:
            raise ExecError('map copy ctor not modelled')
        return None

    def dtor(ex, args, inst):
        p = args[0]
        m = get_map(ex, p)
        for k, rid in m.entries:
            ex.st.mut(rid).alive = False
        ex.st.side.pop((p.rid, p.off), None)
        return None

    def index(ex, args, inst):
        m = get_map(ex, args[0], mut=True)
        key = get_str(ex, args[1]).v
        rid = map_find(ex, m, key)
        if rid is None:
            rid = map_insert(ex, m, key, vdef)
            ex.st.writes.append((args[0].rid, args[0].off, 8))
        return Ptr(rid, 8)

    def find(ex, args, inst):
        m = get_map(ex, args[0])
        key = get_str(ex, args[1]).v
        rid = map_find(ex, m, key)
        return Ptr(rid, 0) if rid is not None else Ptr(m.end, 0)

    def begin(ex, args, inst):
        m = get_map(ex, args[0])
        return Ptr(m.entries[0][1], 0) if m.entries else Ptr(m.end, 0)

    def end(ex, args, inst):
        return Ptr(get_map(ex, args[0]).end, 0)

    def size(ex, args, inst):
        return len(get_map(ex, args[0]).entries)

    def empty(ex, args, inst):
        return 1 if not get_map(ex, args[0]).entries else 0

    def clear(ex, args, inst):
        m = get_map(ex, args[0], mut=True)
        for k, rid in m.entries:
            ex.st.mut(rid).alive = False
        m.entries = []
        ex.st.writes.append((args[0].rid, args[0].off, 8))
        return None

    def erase(ex, args, inst):
        m = get_map(ex, args[0], mut=True)
        if sig.strip().startswith('std::__map_it'):
            it = args[1]
            if not isinstance(it, Ptr):
                raise ExecError('map::erase(iterator) with %r' % (it,))
            rid = it.rid
            if ex.st.regions[rid].kind == 'mapend':
                ex.st.event('oob', 'map-erase-end', ex.cur_fn)
                return None
            m.entries = [(k, r) for k, r in m.entries if r != rid]
            ex.st.mut(rid).alive = False
            ex.st.writes.append((args[0].rid, args[0].off, 8))
            return None
        key = get_str(ex, args[1]).v
        rid = map_find(ex, m, key)
        if rid is None:
            return 0
        m.entries = [(k, r) for k, r in m.entries if r != rid]
        ex.st.mut(rid).alive = False
        ex.st.writes.append((args[0].rid, args[0].off, 8))
        return 1

    def count(ex, args, inst):
        m = get_map(ex, args[0])
        return 1 if map_find(ex, m, get_str(ex, args[1]).v) is not None else 0

    def at(ex, args, inst):
        m = get_map(ex, args[0])
        rid = map_find(ex, m, get_str(ex, args[1]).v)
        if rid is None:
            ex.st.event('oob', 'map-at-missing-key', ex.cur_fn)
            raise ExecError('std::map::at: key not present (std::out_of_range)')
        return Ptr(rid, 8)

    def bound(ex, args, inst):
        m = get_map(ex, args[0])
        key = get_str(ex, args[1]).v
        if isinstance(key, str) and all(isinstance(k, str) for k, _ in m.entries):
            for k, rid in m.entries:            # entries are kept sorted when all keys are concrete
                if (k >= key) if name == 'lower_bound' else (k > key):
                    return Ptr(rid, 0)
            return Ptr(m.end, 0)
        # symbolic keys: the position is only meaningful for the find-or-insert idiom -- the entry holding the key, else end()
        rid = map_find(ex, m, key)
        if rid is not None and name == 'lower_bound':
            return Ptr(rid, 0)
        return Ptr(m.end, 0)

    def insert(ex, args, inst):
        m = get_map(ex, args[0], mut=True)
        hinted = sig.strip().startswith('std::__map_it')
        vp = args[2] if hinted else args[1]
        key = get_str(ex, vp).v
        rid = map_find(ex, m, key)
        fresh = rid is None
        if fresh:
            val = ex.load(Ptr(vp.rid, vp.off + 8), vsize, 'ptr' if vty.strip().endswith('*') else 'i32')
            rid = map_insert(ex, m, key, val)
            ex.st.writes.append((args[0].rid, args[0].off, 8))
        if hinted:
            return Ptr(rid, 0)
        return {0: Ptr(rid, 0), 1: 1 if fresh else 0}

    table = {'map': ctor, '~map': dtor, 'operator[]': index, 'find': find, 'begin': begin, 'end': end,
             'size': size, 'empty': empty, 'clear': clear, 'erase': erase, 'count': count, 'at': at,
             'lower_bound': bound, 'upper_bound': bound, 'insert': insert}
    return table.get(name)


def pair_ctor(vty, sig):
    """std::pair<const std::string, V>: layout {string at 0, V at 8} (the layout of a map entry)"""
    vsize = elem_size(vty)
    parts, depth, cur = [], 0, ''
    for ch in sig:                       # split on top-level commas only (std::pair<A, B> const& is one parameter)
        if ch in '<(':
            depth += 1
        elif ch in '>)':
            depth -= 1
        if ch == ',' and depth == 0:
            parts.append(cur.strip())
            cur = ''
        else:
            cur += ch
    if cur.strip():
        parts.append(cur.strip())

    def f(ex, args, inst):
        p = args[0]
        if not parts:
            set_str(ex, p, '')
            ex.store(Ptr(p.rid, p.off + 8), vsize, NULL if vty.strip().endswith('*') else 0)
        elif len(parts) == 1:           # copy / converting copy from another pair
            q = args[1]
            set_str(ex, p, get_str(ex, q).v)
            ex.store(Ptr(p.rid, p.off + 8), vsize, ex.load(Ptr(q.rid, q.off + 8), vsize, 'ptr' if vty.strip().endswith('*') else 'i32'))
        else:
            set_str(ex, p, get_str(ex, args[1]).v)
            ex.store(Ptr(p.rid, p.off + 8), vsize, ex.load(args[2], vsize, 'ptr' if vty.strip().endswith('*') else 'i32'))
        return None
    return f


def find_map_of_entry(ex, rid):
    for m in ex.st.side.values():
        if isinstance(m, MapVal):
            for i, (k, r) in enumerate(m.entries):
                if r == rid:
                    return m, i
            if m.end == rid:
                return m, len(m.entries)
    return None, None


def mapit_method(name):
    def cur(ex, p):
        return ex.load(p, 8, 'ptr')

    def deref(ex, args, inst):
        c = cur(ex, args[0])
        if not isinstance(c, Ptr):
            raise ExecError('dereference of invalid map iterator %r' % (c,))
        r = ex.st.regions[c.rid]
        if r.kind == 'mapend':
            ex.st.event('oob', 'map-end-deref', ex.cur_fn)
            raise ExecError('dereference of map end iterator in %s' % ex.cur_fn)
        return c

    def inc(ex, args, inst):
        c = cur(ex, args[0])
        m, i = find_map_of_entry(ex, c.rid)
        if m is None:
            raise ExecError('increment of invalid map iterator')
        nxt = Ptr(m.entries[i + 1][1], 0) if i + 1 < len(m.entries) else Ptr(m.end, 0)
        ex.store(args[0], 8, nxt)
        if len(args) > 1:
            return c        # post-increment returns old value
        return args[0]

    def dec(ex, args, inst):
        c = cur(ex, args[0])
        m, i = find_map_of_entry(ex, c.rid)
        if m is None:
            raise ExecError('decrement of invalid map iterator')
        if i == 0:
            ex.st.event('oob', 'map-begin-decrement', ex.cur_fn)
            raise ExecError('decrement of map begin iterator in %s' % ex.cur_fn)
        ex.store(args[0], 8, Ptr(m.entries[i - 1][1], 0))
        if len(args) > 1:
            return c
        return args[0]

    def ne(ex, args, inst):
        return 0 if cur(ex, args[0]) == cur(ex, args[1]) else 1

    def eq(ex, args, inst):
        return 1 if cur(ex, args[0]) == cur(ex, args[1]) else 0

    def conv(ex, args, inst):
        if len(args) > 1:
            ex.store(args[0], 8, cur(ex, args[1]))
        return None

    def assign(ex, args, inst):
        ex.store(args[0], 8, cur(ex, args[1]))
        return args[0]
    return {'operator*': deref, 'operator->': deref, 'operator++': inc, 'operator--': dec, 'operator!=': ne, 'operator==': eq,
            '__map_it': conv, 'operator=': assign}[name]
