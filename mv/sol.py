"""Solution-level helpers on top of Engine A: catalogue construction by executing the real
get_list_mms/constructors, parameter tables from the real register_var calls, symbolisation."""
import os
import terms as tm
from terms import T
from prog import Program
from models import Models, StrVal, VecVal, MapVal
import models
from exec import Ex, Ptr, FnPtr, NULL, ExecError, Terminal

SC = {'double': 'd', 'long double': 'e'}
FT = {'double': 'f64', 'long double': 'f80'}
FS = {'double': 8, 'long double': 16}


class World(object):
    """linked program + executor + base state (after static initialisation)"""
    def __init__(self, irdir, units=None):
        self.prog = Program().load_dir(irdir, units)
        self.models = Models(self.prog)
        self.ex = Ex(self.prog, self.models)
        self.ex.models = self.models
        self.ex.snap_mode = 'lenient'
        self.base = self.ex.init_state()
        self.ex.nonsimple = []
        # get_list_mms builds the whole catalogue from constants only: its effect is cached per process (exec.call_memo)
        for n in self.prog.functions:
            if 'get_list_mms' in n:
                self.ex.memo_fns.add(n)
        self._cat = {}
        self._cache = {}

    def fn_by_demangled(self, pred):
        out = []
        for n in self.prog.functions:
            d = self.models.demangled(n)
            if pred(d):
                out.append(n)
        return out

    def catalogue(self, scalar):
        """execute get_list_mms<scalar>: returns (state, [solution dict])"""
        if scalar in self._cat:
            return self._cat[scalar]
        ex = self.ex
        cands = self.fn_by_demangled(lambda d: 'get_list_mms<%s>' % scalar in d)
        if len(cands) != 1:
            raise ExecError('get_list_mms<%s>: %r' % (scalar, cands))
        st = self.base.clone()
        ex.st = st
        ex.schedule, ex.decisions, ex.pending = [], [], []
        vec = st.new_region('alloca', 8, 'harness:anim')
        models.new_vec(ex, Ptr(vec.rid, 0), 8)
        ex.uninit_events = True
        ev0 = len(st.events)
        ex.call(cands[0], [Ptr(vec.rid, 0)])
        if ex.pending:
            raise ExecError('catalogue construction forked: %r' % (st.pc,))
        v = st.side[(vec.rid, 0)]
        sols = []
        for i in range(v.n):
            p = ex.load(Ptr(v.buf, i * 8), 8, 'ptr')
            sols.append(self.describe(st, p, scalar))
        self._cat[scalar] = (st, sols, st.events[ev0:])
        return self._cat[scalar]

    def describe(self, st, p, scalar):
        ex = self.ex
        ex.st = st
        reg = st.regions[p.rid]
        vptr = st.mem[(p.rid, 0)][1]
        vt_region = st.regions[vptr.rid]
        d = dict(ptr=p, size=reg.size, vtable=vt_region.name, vtoff=vptr.off, scalar=scalar)
        # locate members of the base class through the container side table
        maps = sorted((off, m) for (rid, off), m in st.side.items() if rid == p.rid and isinstance(m, MapVal))
        vecs = sorted((off, m) for (rid, off), m in st.side.items() if rid == p.rid and isinstance(m, VecVal))
        strs = sorted((off, m) for (rid, off), m in st.side.items() if rid == p.rid and isinstance(m, StrVal))
        varmap, vecmap = maps[0][1], maps[1][1]
        vararr, vecarr = vecs[0][1], vecs[1][1]
        d['off_varmap'], d['off_vecmap'] = maps[0][0], maps[1][0]
        d['off_vararr'], d['off_vecarr'] = vecs[0][0], vecs[1][0]
        d['off_name'] = strs[0][0]
        d['name'] = strs[0][1].v
        params = {}
        for key, rid in varmap.entries:
            idx = st.mem[(rid, 8)][1]
            if isinstance(idx, int) and 0 <= idx < vararr.n:
                a = st.mem.get((vararr.buf, idx * 8))
                params[key] = (idx, a[1] if a else None)
            else:
                params[key] = (idx, None)
        d['params'] = params
        vparams = {}
        for key, rid in vecmap.entries:
            idx = st.mem[(rid, 8)][1]
            a = st.mem.get((vecarr.buf, idx * 8)) if isinstance(idx, int) else None
            vparams[key] = (idx, a[1] if a else None)
        d['vecs'] = vparams
        return d

    def find(self, scalar, name):
        st, sols, _ = self.catalogue(scalar)
        for s in sols:
            if s['name'] == name:
                return st, s
        raise KeyError(name)

    # ------------------------------------------------------------------------------------------
    def symbolize(self, st, sol, prefix='', cache_prefix=None):
        """overwrite every registered scalar parameter by a real symbol named after it.
        Returns {name: symbol}.  If cache_prefix is given, every other FP-sized slot of the object
        that currently holds an FP value/undef is replaced by a fresh symbol (arbitrary cache state)."""
        ex = self.ex
        ex.st = st
        fs = FS[sol['scalar']]
        p = sol['ptr']
        syms = {}
        paddr = set()
        for name, (idx, a) in sorted(sol['params'].items()):
            if a is None or not isinstance(a, Ptr):
                continue
            s = tm.sym(prefix + name)
            st.mem[(a.rid, a.off)] = (fs, s)
            syms[name] = s
            paddr.add((a.rid, a.off))
        if cache_prefix is not None:
            for (rid, off), (sz, v) in list(st.mem.items()):
                if rid == p.rid and (rid, off) not in paddr and sz == fs and isinstance(v, T) and v.sort == 'R':
                    st.mem[(rid, off)] = (sz, tm.sym('%s@%d' % (cache_prefix, off)))
            # flags and counters (bool/int members) that an EVALUATOR of the class writes are remembered values as well ("already computed" flags)
            for off, sz in sorted(self.eval_written(sol)):
                e = st.mem.get((p.rid, off))
                if sz in (1, 2, 4) and (p.rid, off) not in paddr and e is not None and e[0] == sz and isinstance(e[1], int) and not isinstance(e[1], bool):
                    st.mem[(p.rid, off)] = (sz, tm.sym('%sI@%d' % (cache_prefix, off), 'I'))
        return syms

    def eval_written(self, sol):
        """(offset, size) of the object's members that any evaluator override of its class stores to (explored from the constructed state
        with symbolic arguments); used to decide which non-FP members hold a value remembered from an earlier evaluation"""
        key = ('eval-written', sol['scalar'], sol['name'])
        if key in self._cache:
            return self._cache[key]
        from spec import api as A
        self._cache[key] = set()          # (re-entrancy guard)
        stc, s = self.find(sol['scalar'], sol['name'])
        written = set()
        hook0 = getattr(self.models, 'callback_hook', None)
        if hook0 is None:
            self.models.callback_hook = lambda ex, cv, args, ins: tm.uf('call:' + cv.p, *[a if isinstance(a, T) else tm.iconst(a) for a in args])
        st_keep = self.ex.st
        try:
            for n in self.vtable_slots(s):
                if not n or n not in self.prog.functions:
                    continue
                pv = A.parse_virtual(self.models.demangled(n), s['scalar'])
                if not pv or pv[0] == 'manufactured_solution' or not pv[1].startswith('eval_'):
                    continue
                args = []
                for k, q in enumerate(pv[2].split(',') if pv[2] else []):
                    args.append(tm.sym('arg%d' % k) if q == 'S' else tm.sym('iarg%d' % k, 'I') if q == 'int' else tm.sym('callback%d' % k, 'P'))
                try:
                    for pth in self.ex.explore(stc, lambda ex, n=n, args=args: ex.call(n, [s['ptr']] + args), 64):
                        for wr in pth['st'].writes[len(stc.writes):]:
                            if wr[0] == s['ptr'].rid:
                                written.add((wr[1], wr[2]))
                except ExecError:
                    pass
        finally:
            self.models.callback_hook = hook0
            self.ex.st = st_keep
        self._cache[key] = written
        return written

    def method(self, sol, meth, arity, extra=''):
        """mangled name of Class<Scalar>::meth(Scalar x arity)"""
        cls = self.class_of(sol)
        c = SC[sol['scalar']]
        return '_ZN4MASA%d%sI%sE%d%sE%s%s' % (len(cls), cls, c, len(meth), meth, c * arity if arity else ('' if extra else 'v'), extra)

    def dispatch(self, sol, meth, arity, extra=''):
        """function a virtual call obj->meth(Scalar x arity) reaches: the object's vtable entry at the slot the base class
        manufactured_solution<Scalar> declares for that signature (what the API's call does); the class's own member of
        that name when the base declares no such virtual (helpers)"""
        c = SC[sol['scalar']]
        base = '_ZN4MASA21manufactured_solutionI%sE%d%sE%s%s' % (c, len(meth), meth, c * arity if arity else ('' if extra else 'v'), extra)
        key = ('base-slots', sol['scalar'])
        if key not in self._cache:
            st, _, _ = self.catalogue(sol['scalar'])
            slots = {}
            vt = '_ZTVN4MASA21manufactured_solutionI%sEE' % c
            if vt in st.gmap:
                rid, off, k = st.gmap[vt], 16, 0
                while (rid, off) in st.mem:
                    e = st.mem[(rid, off)][1]
                    if isinstance(e, FnPtr):
                        slots[e.name] = k
                    off += 8
                    k += 1
            self._cache[key] = slots
        k = self._cache[key].get(base)
        if k is not None:
            tbl = self.vtable_slots(sol)
            if k < len(tbl) and tbl[k] is not None:
                return tbl[k]
        return self.method(sol, meth, arity, extra)

    def class_of(self, sol):
        # vtable symbol _ZTVN4MASA<len><cls>I<d|e>EE
        vt = sol['vtable']
        s = vt[len('_ZTVN4MASA'):]
        n = ''
        while s[0].isdigit():
            n += s[0]
            s = s[1:]
        return s[:int(n)]

    def vtable_slots(self, sol):
        """list of function names in the object's vtable (from the address point)"""
        st, _, _ = self.catalogue(sol['scalar'])
        rid = st.gmap[sol['vtable']]
        out = []
        off = sol['vtoff']
        while True:
            e = st.mem.get((rid, off))
            if e is None:
                break
            out.append(e[1].name if isinstance(e[1], FnPtr) else None)
            off += 8
        return out

    def run_paths(self, st0, fname, args, max_paths=256):
        return self.ex.explore(st0, lambda ex: ex.call(fname, args), max_paths)


# ----------------------------------------------------------------------------------------------
# API-level harness: the registry is driven through the real masa_init / masa_select_mms IR

def normalise_name(s):
    """reference normaliser of C13: lower-case, delete every '-' and ' '"""
    return ''.join(ch for ch in s.lower() if ch not in '- ')


def m_masa_map(ex, args, inst):
    """summary of MASA::masa_map(std::string*) used by Engine A (character-level behaviour of the real
    function is the subject of C13's CBMC harness)"""
    from models import get_str, set_str
    p = args[0]
    v = get_str(ex, p).v
    if isinstance(v, str):
        set_str(ex, p, normalise_name(v))
    else:
        set_str(ex, p, tm.uf('masa_map', v, sort='S'))
    return 0


def _string_filter(uf_name, concrete):
    """summary of the other exported helpers of masa_map.cpp (void f(std::string&)): their character-level behaviour is CBMC's job (C13)"""
    def model(ex, args, inst):
        from models import get_str, set_str
        v = get_str(ex, args[0]).v
        set_str(ex, args[0], concrete(v) if isinstance(v, str) else tm.uf(uf_name, v, sort='S'))
        return None
    return model


def install_api_models(world):
    helpers = {'MASA::masa_map(std::string*)': m_masa_map,
               'MASA::uptolow(std::string&)': _string_filter('uptolow', lambda v: v.lower()),
               'MASA::remove_line(std::string&)': _string_filter('remove_line', lambda v: v.replace('-', '')),
               'MASA::remove_whitespace(std::string&)': _string_filter('remove_whitespace', lambda v: v.replace(' ', ''))}
    for n in list(world.prog.functions) + list(world.prog.decls):
        m = helpers.get(world.models.demangled(n))
        if m is not None:
            world.models.overrides[n] = m


def api_fn(world, name, scalar, sig):
    """linked name of MASA::<name><scalar>(sig...) e.g. sig='double, double, int'"""
    want = 'MASA::%s<%s>(%s)' % (name, scalar, sig)
    for n in world.prog.functions:
        d = world.models.demangled(n)
        if d.endswith(want) and (d == want or d[-len(want) - 1] == ' '):
            return n
    raise KeyError(want)


def new_string(ex, value):
    from models import set_str
    r = ex.st.new_region('alloca', 8, 'harness:string')
    set_str(ex, Ptr(r.rid, 0), value)
    return Ptr(r.rid, 0)


def api_init(world, st, scalar, handle, solname):
    """run masa_init<scalar>(handle, solname) on state st (mutates st); returns list of paths if it forks"""
    ex = world.ex
    install_api_models(world)
    fn = api_fn(world, 'masa_init', scalar, 'std::string, std::string')
    ex.st = st
    ex.schedule, ex.decisions, ex.pending = [], [], []
    h = new_string(ex, handle)
    s = new_string(ex, solname)
    r = ex.call(fn, [h, s])
    if ex.pending:
        raise ExecError('masa_init forked on concrete arguments')
    return r


def selected_object(world, st, scalar):
    """(Ptr to the selected solution object) read from the registry global"""
    g = [n for n in st.gmap if ('masa_master_double' if scalar == 'double' else 'masa_master_longdouble') in n]
    rid = st.gmap[g[0]]
    return st.mem[(rid, 0)][1], rid
