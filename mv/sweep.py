"""Cut-point sweeping (DESIGN.md §3.3): prove lib == ref bottom-up.  Candidate pairs (library node, reference
node) are found by numeric fingerprints at random points; each candidate is PROVED by its own solver query; proved
pairs are replaced on both sides by one shared fresh variable; the top-level query is asked over the merged DAGs.
Every merge rests on an unsat verdict, and replacing a proved-equal subterm by a free variable only weakens what the
solver may assume, so the final unsat implies the original identity."""
import random
import os
import time
from fractions import Fraction
import terms as tm
from terms import T
import smt
import framework
import replay as rp


def fingerprints(roots, names, seed, npoints=3, ufs=None, ranges=None):
    rng = random.Random(seed)
    nodes = tm.topo(roots)
    fps = {}
    for k in range(npoints):
        env = {}
        for n in names:
            lo, hi = (ranges or {}).get(n, (Fraction(1, 2), Fraction(3, 2)))
            env[n] = rp.mp.mpf(rng.randint(1, 997)) / 997 * (float(hi) - float(lo)) + float(lo)
        val = {}
        for t in nodes:
            try:
                val[t.id] = tm.evalf([t], env, rp.mp, ufs)[0] if False else None
            except Exception:
                val[t.id] = None
        # single pass evaluation (evalf over all nodes at once)
        try:
            vals = eval_all(nodes, env, ufs)
        except Exception:
            vals = {}
        for t in nodes:
            fps.setdefault(t.id, []).append(vals.get(t.id))
    return nodes, fps


def eval_all(nodes, env, ufs):
    """values of every node (nodes is a topological order)"""
    mp = rp.mp
    val = {}
    for t in nodes:
        try:
            if t.op == 'c':
                v = mp.mpf(t.p.numerator) / mp.mpf(t.p.denominator)
            elif t.op == 'sym':
                v = mp.pi if t.p == 'PI' else env[t.p]
            elif t.op == 'undef':
                v = None
            else:
                a = [val.get(c.id) for c in t.a]
                if any(x is None for x in a):
                    v = None
                elif t.op == 'add':
                    v = a[0] + a[1]
                elif t.op == 'sub':
                    v = a[0] - a[1]
                elif t.op == 'mul':
                    v = a[0] * a[1]
                elif t.op == 'div':
                    v = a[0] / a[1]
                elif t.op == 'neg':
                    v = -a[0]
                elif t.op == 'ite':
                    v = a[1] if a[0] else a[2]
                elif t.op == 'lt':
                    v = a[0] < a[1]
                elif t.op == 'le':
                    v = a[0] <= a[1]
                elif t.op == 'eq':
                    v = a[0] == a[1]
                elif t.op == 'not':
                    v = not a[0]
                elif t.op == 'and':
                    v = a[0] and a[1]
                elif t.op == 'or':
                    v = a[0] or a[1]
                elif t.op == 'fn':
                    f = t.p
                    if f == 'pow':
                        v = mp.power(a[0], a[1])
                    elif f == 'fabs':
                        v = abs(a[0])
                    else:
                        v = getattr(mp, f)(a[0])
                elif t.op == 'uf':
                    v = ufs[t.p](*a) if ufs and t.p in ufs else None
                elif t.op in ('i2r', 'r2i'):
                    v = a[0]
                else:
                    v = None
            if v is not None and not isinstance(v, bool) and (isinstance(v, mp.mpc) or not mp.isfinite(v)):
                v = None
        except Exception:
            v = None
        val[t.id] = v
    return val


def fpkey(vals):
    """bucket key of a fingerprint: first value rounded to 18 significant digits (collisions are re-checked with close())"""
    v = vals[0]
    if v is None or isinstance(v, bool):
        return None
    return rp.mp.nstr(v, 18)


def close(a, b):
    if a is None or b is None or isinstance(a, bool) or isinstance(b, bool):
        return False
    return abs(a - b) <= rp.mp.mpf('1e-30') * (1 + abs(a) + abs(b))


def _solve(chk, assumptions, lib, ref, timeout):
    enc = smt.Encoder()
    script = enc.script(list(assumptions), [tm.cmp('ne', lib, ref)])
    return script, smt.run_solver(script, timeout, workdir=chk.scratch, tag=chk.pid), enc


from concurrent.futures import ThreadPoolExecutor
_POOL = ThreadPoolExecutor(max_workers=12)
BATCH = 8


def _encode(assumptions, lib, ref):
    return smt.Encoder().script(list(assumptions), [tm.cmp('ne', lib, ref)])


def _submit(chk, script, timeout):
    """the solver process runs in a worker thread; terms are only built and encoded in the calling thread"""
    return _POOL.submit(smt.run_solver, script, timeout, workdir=chk.scratch, tag=chk.pid)


def sweep_identity(chk, name, lib, ref, assumptions, names, key=None, replay=None, family=None, min_size=6, max_lemmas=80, ufs=None, ranges=None,
                   lemma_timeout=10, mono_timeout=15, top_timeout=None):
    """Decides lib == ref under assumptions.  Ladder (first unsat wins, every rung is an exact-or-weaker encoding):
       1. monolithic query (short cap); 2. cut-point lemmas; 3. additive splitting (groups of summands, each decided by this ladder again);
       4. node merging (proved-equal reference nodes are replaced by the library node: definitions kept);
       5. cut-point abstraction (proved-equal nodes replaced by one shared free variable); 6. monolithic query, full budget.
    Registers ONE property obligation carrying the deciding verdict, plus the proved lemmas/groups as lemma obligations."""
    t0_ = time.time()
    script, res, how, tried, nlem = _ladder(chk, name, lib, ref, assumptions, names, family, min_size, max_lemmas, ufs, ranges, lemma_timeout, mono_timeout, top_timeout or chk.qtimeout, 0)
    ob = framework.Ob(name, 'prop', script, 'unsat', dict(obligation=name, decided_by=how, ladder=tried, lemmas_proved=nlem, lhs=tm.show(lib, 3), rhs=tm.show(ref, 3)),
                      replay, key, (), family=family)
    ob.result = res
    if os.environ.get('VERIF_TIMING'):
        print('TIMING %s %.1fs %r' % (name, time.time() - t0_, tried), flush=True)
    ob.search = dict(conds=list(assumptions), names=list(names), ranges=ranges, ufs=ufs)
    chk.obs.append(ob)
    chk.classify(ob)
    return ob


def _ladder(chk, name, lib, ref, assumptions, names, family, min_size, max_lemmas, ufs, ranges, lemma_timeout, mono_timeout, top_timeout, depth):
    script = _encode(assumptions, lib, ref)
    probe = _submit(chk, script, mono_timeout)
    lemmas = []
    S_merge, S_abs = {}, {}
    try:
        res = probe.result(timeout=1.5)
        if res['verdict'] == 'unsat':
            return script, res, 'monolithic', [('monolithic', 'unsat', round(res['time'], 2))], 0
    except Exception:
        pass
    # the candidate search runs while the monolithic probe is with the solver
    nodes, fps = fingerprints([lib, ref], names, chk.seed + 1, 3, ufs, ranges)
    lib_nodes = set(t.id for t in tm.topo([lib]))
    ref_nodes = set(t.id for t in tm.topo([ref]))
    size = {}
    for t in nodes:
        size[t.id] = 1 + sum(size[c.id] for c in t.a)
    ok = lambda t: t.sort == 'R' and t.a and size[t.id] >= min_size and all(v is not None for v in fps[t.id])
    only_lib = [t for t in nodes if t.id in lib_nodes and t.id not in ref_nodes and ok(t)]
    only_ref = [t for t in nodes if t.id in ref_nodes and t.id not in lib_nodes and ok(t)]
    cands = []
    buckets = {}
    for a in only_lib:
        buckets.setdefault(fpkey(fps[a.id]), []).append(a)
    for b in only_ref:
        for a in buckets.get(fpkey(fps[b.id]), []):
            if all(close(x, y) for x, y in zip(fps[a.id], fps[b.id])):
                cands.append((max(size[a.id], size[b.id]), a, b))
    cands.sort(key=lambda c: c[0])
    if True:
        used_b = set()
        i = 0
        while i < len(cands) and len(lemmas) < max_lemmas and not (probe.done() and probe.result()['verdict'] in ('sat', 'unsat')):
            # a batch of lemma queries is with the solver at the same time; each is asked under the merges proved before the batch
            batch = []
            while i < len(cands) and len(batch) < BATCH:
                sz, a, b = cands[i]
                i += 1
                if b.id in used_b:
                    continue
                a2, b2 = tm.subst([a, b], S_merge)
                if a2 is b2:
                    continue
                A2 = tm.subst(list(assumptions), S_merge) if S_merge else list(assumptions)
                lscript = _encode(A2, a2, b2)
                batch.append((sz, a, b, lscript, _submit(chk, lscript, lemma_timeout)))
            for sz, a, b, lscript, fut in batch:
                lres = fut.result()
                if lres['verdict'] != 'unsat' or b.id in used_b:
                    continue
                ob = framework.Ob('%s#lemma%d' % (name, len(lemmas)), 'lemma', lscript, 'unsat', dict(obligation='cut-point lemma', lhs=tm.show(a, 3), rhs=tm.show(b, 3), size=sz), None, None, (), lemma_timeout, family=family)
                ob.result = lres
                ob.status = 'discharged'
                chk.obs.append(ob)
                lemmas.append((a, b))
                S_merge[b] = a
                v = tm.sym('cut:%s:%d' % (name, len(lemmas)))
                if a not in S_abs:
                    S_abs[a] = v
                S_abs[b] = S_abs[a]
                used_b.add(b.id)
    # the lemma phase ran while the monolithic probe was with the solver; with lemmas, the node-merged query is probed at once as well
    nm = None
    if lemmas and not probe.done():
        lib2, ref2 = tm.subst([lib, ref], S_merge)
        nm_script = _encode(tm.subst(list(assumptions), S_merge), lib2, ref2)
        nm = _submit(chk, nm_script, mono_timeout)
        from concurrent.futures import wait, FIRST_COMPLETED
        pending = {probe, nm}
        while pending:
            done, pending = wait(pending, return_when=FIRST_COMPLETED)
            if any(f.result()['verdict'] in ('sat', 'unsat') for f in done):
                break
    pending_probe = dict(verdict='timeout', time=0.0, output='', solver='z3', hash='', note='monolithic probe still running')
    res = probe.result() if probe.done() else pending_probe
    tried = [('monolithic', res['verdict'] if probe.done() else 'running', round(res['time'], 2))]
    final = (script, res, 'monolithic')
    if nm is not None and nm.done() and final[1]['verdict'] not in ('sat', 'unsat'):
        r2 = nm.result()
        tried.append(('node-merging(probe)', r2['verdict'], round(r2['time'], 2)))
        if r2['verdict'] in ('sat', 'unsat'):
            final = (nm_script, r2, 'node-merging')
    if final[1]['verdict'] != 'unsat':
        if final[1]['verdict'] not in ('sat', 'unsat'):
            # additive splitting: summands common to both sides are cancelled (a + c == b + c  <=>  a == b), the remaining summands are
            # grouped by numeric fingerprints into sub-sums that should be equal, and every group is proved by its own query
            # (sum of proved-equal groups == the identity).  A group that is not proved leaves the ladder undecided.
            lib_s, ref_s = (tm.subst([lib, ref], S_merge) if lemmas else (lib, ref))
            A_s = tm.subst(list(assumptions), S_merge) if lemmas else list(assumptions)
            groups = additive_groups(lib_s, ref_s, names, chk.seed + 2, ufs, ranges)
            if groups is not None and len(groups) > 1:
                t_all, ok, last, nok = 0.0, True, None, 0
                for gi, (gl, gr) in enumerate(groups):
                    if len(groups) == 1 or depth >= 2:
                        gscript, gres, _ = _solve(chk, A_s, gl, gr, top_timeout if len(groups) > 1 else mono_timeout)
                        ghow, gtried = 'monolithic', []
                    else:
                        gscript, gres, ghow, gtried, _n = _ladder(chk, '%s#group%d' % (name, gi), gl, gr, A_s, names, family, min_size, max_lemmas, ufs, ranges,
                                                                  lemma_timeout, mono_timeout, max(4 * mono_timeout, top_timeout // 4), depth + 1)
                    t_all += gres['time']
                    last = (gscript, gres)
                    if gres['verdict'] != 'unsat':
                        ok = False
                        if os.environ.get('VERIF_DUMP_GROUPS'):
                            with open(os.environ['VERIF_DUMP_GROUPS'], 'a') as fh:
                                fh.write('== %s group %d\nLHS %s\nRHS %s\n' % (name, gi, tm.show(gl, 9), tm.show(gr, 9)))
                        tried.append(('group %d/%d undecided: %s == %s' % (gi + 1, len(groups), tm.show(gl, 2)[:80], tm.show(gr, 2)[:80]), gres['verdict'], gtried))
                        continue
                    nok += 1
                    gob = framework.Ob('%s#group%d' % (name, gi), 'lemma', gscript, 'unsat', dict(obligation='additive group', decided_by=ghow, lhs=tm.show(gl, 3), rhs=tm.show(gr, 3)), None, None, (), top_timeout, family=family)
                    gob.result = gres
                    gob.status = 'discharged'
                    chk.obs.append(gob)
                tried.append(('additive-splitting(%d groups, %d proved)' % (len(groups), nok), 'unsat' if ok else 'undecided', round(t_all, 2)))
                if ok:
                    res_ = dict(last[1])
                    res_['time'] = t_all
                    final = (last[0], res_, 'additive-splitting')
                elif len(groups) > 1 and nok > 0:
                    # some groups are proved: the rungs below would redo the whole identity; they are tried with the short cap only
                    top_timeout = min(top_timeout, 4 * mono_timeout)
        if final[1] is pending_probe:
            res = probe.result()
            tried[0] = ('monolithic', res['verdict'], round(res['time'], 2))
            final = (script, res, 'monolithic')
        if lemmas and final[1]['verdict'] not in ('sat', 'unsat'):
            lib2, ref2 = tm.subst([lib, ref], S_merge)
            A2 = tm.subst(list(assumptions), S_merge)
            script2, res2, enc2 = _solve(chk, A2, lib2, ref2, top_timeout)
            tried.append(('node-merging', res2['verdict'], round(res2['time'], 2)))
            if res2['verdict'] == 'unsat' or final[1]['verdict'] not in ('sat',):
                final = (script2, res2, 'node-merging')
            if res2['verdict'] != 'unsat':
                lib3, ref3 = tm.subst([lib, ref], S_abs)
                A3 = tm.subst(list(assumptions), S_abs)
                script3, res3, enc3 = _solve(chk, A3, lib3, ref3, top_timeout)
                tried.append(('cut-point-abstraction', res3['verdict'], round(res3['time'], 2)))
                if res3['verdict'] == 'unsat':
                    final = (script3, res3, 'cut-point-abstraction')
                # (a sat answer over the abstraction proves nothing about the identity: the cut variables are free)
    if final[1]['verdict'] not in ('sat', 'unsat') and top_timeout > mono_timeout:
        # nothing decided: the monolithic query once more with the full budget (it was only probed with the short cap)
        script, res, enc = _solve(chk, assumptions, lib, ref, top_timeout)
        tried.append(('monolithic-full-budget', res['verdict'], round(res['time'], 2)))
        if res['verdict'] in ('sat', 'unsat'):
            final = (script, res, 'monolithic')
    script, res, how = final
    return script, res, how, tried, len(lemmas)


def flatten_sum(t, sign=1, out=None):
    """signed top-level summands of t: through add/sub/neg and (sum)/c"""
    out = [] if out is None else out
    if t.op == 'add':
        flatten_sum(t.a[0], sign, out)
        flatten_sum(t.a[1], sign, out)
    elif t.op == 'sub':
        flatten_sum(t.a[0], sign, out)
        flatten_sum(t.a[1], -sign, out)
    elif t.op == 'neg':
        flatten_sum(t.a[0], -sign, out)
    elif t.op == 'div' and t.a[0].op in ('add', 'sub', 'neg'):
        for sg, x in flatten_sum(t.a[0], sign, []):
            out.append((sg, x / t.a[1]))
    else:
        out.append((sign, t))
    return out


def _sum(items):
    acc = None
    for sg, t in items:
        acc = (t if sg > 0 else -t) if acc is None else (acc + t if sg > 0 else acc - t)
    return acc if acc is not None else tm.ZERO


def _zero_subset(vals, scale):
    """smallest index set containing 0 whose value vectors (rows of vals, numpy n x k) sum to ~0; None if there is none.
    Meet in the middle: all subset sums of both halves, matched on the first coordinate, checked on the others."""
    import numpy as np
    n = len(vals)
    if n < 2 or n > 44:
        return None
    tol = 1e-11 * scale
    rest = list(range(1, n))
    A, B = rest[:len(rest) // 2], rest[len(rest) // 2:]

    def sums(idx):
        out = np.zeros((1, vals.shape[1]))
        for i in idx:
            out = np.concatenate([out, out + vals[i]])
        return out              # row m = sum of idx[j] for bits j of m
    sa = sums(A) + vals[0]
    sb = sums(B)
    order = np.argsort(sa[:, 0])
    key = sa[order, 0]
    lo = np.searchsorted(key, -sb[:, 0] - tol, 'left')
    hi = np.searchsorted(key, -sb[:, 0] + tol, 'right')
    best = None
    for mb in np.nonzero(hi > lo)[0]:
        for pos in range(lo[mb], hi[mb]):
            ma = order[pos]
            if np.all(np.abs(sa[ma] + sb[mb]) <= tol):
                cnt = bin(int(ma)).count('1') + bin(int(mb)).count('1')
                if best is None or cnt < best[0]:
                    best = (cnt, int(ma), int(mb))
    if best is None:
        return None
    _, ma, mb = best
    return [0] + [A[j] for j in range(len(A)) if ma >> j & 1] + [B[j] for j in range(len(B)) if mb >> j & 1]


def additive_groups(lib, ref, names, seed, ufs=None, ranges=None):
    """[(lib sub-sum, ref sub-sum)] covering lib - ref: common summands are cancelled, the rest is partitioned into minimal
    sub-collections whose signed values cancel at the fingerprint points (candidates only: every group is then PROVED by a
    query of its own).  None if there is nothing to split."""
    import numpy as np
    L, R = flatten_sum(lib), flatten_sum(ref)
    if len(L) + len(R) <= 2:
        return None
    Rl = list(R)
    L2 = []
    for sg, t in L:
        hit = [k for k, (sg2, t2) in enumerate(Rl) if t2 is t and sg2 == sg]
        if hit:
            Rl.pop(hit[0])
        else:
            L2.append((sg, t))
    L, R = L2, Rl
    if not L and not R:
        return [(tm.ZERO, tm.ZERO)]
    nodes, fps = fingerprints([t for _, t in L + R], names, seed, 3, ufs, ranges)
    items = [(sg, t, 0) for sg, t in L] + [(-sg, t, 1) for sg, t in R]      # lib - ref
    exact = [[None if v is None else (v if it[0] > 0 else -v) for v in fps[it[1].id]] for it in items]
    whole = [(_sum(L), _sum(R))]
    if any(v is None for e in exact for v in e):
        return whole
    groups = []
    left = list(range(len(items)))
    while left:
        vals = np.array([[float(v) for v in exact[i]] for i in left])
        scale = float(np.abs(vals).sum()) + 1e-300
        sub = _zero_subset(vals, scale) if len(left) > 2 else list(range(len(left)))
        if sub is None:
            sub = list(range(len(left)))
        idx = [left[j] for j in sub]
        # confirm the numeric cancellation at 50 digits
        for k in range(len(exact[0])):
            tot = sum(exact[i][k] for i in idx)
            mag = sum(abs(exact[i][k]) for i in idx)
            if abs(tot) > rp.mp.mpf('1e-25') * (mag + 1):
                idx = list(left)
                break
        groups.append((_sum([(items[i][0], items[i][1]) for i in idx if items[i][2] == 0]), _sum([(-items[i][0], items[i][1]) for i in idx if items[i][2] == 1])))
        left = [i for i in left if i not in idx]
    return groups


def find_merges(chk, name, lib_roots, ref, assumptions, names, ufs=None, ranges=None, min_size=4, max_lemmas=120, lemma_timeout=10, family=None):
    """reference nodes proved equal (under the assumptions) to library nodes -> {ref node: lib node}; lemmas are registered"""
    nodes, fps = fingerprints(list(lib_roots) + [ref], names, chk.seed + 1, 3, ufs, ranges)
    lib_nodes = set(t.id for t in tm.topo(list(lib_roots)))
    ref_nodes = set(t.id for t in tm.topo([ref]))
    size = {}
    for t in nodes:
        size[t.id] = 1 + sum(size[c.id] for c in t.a)
    ok = lambda t: t.sort == 'R' and t.a and t.op != 'ite' and size[t.id] >= min_size and all(v is not None for v in fps[t.id])
    only_lib = [t for t in nodes if t.id in lib_nodes and t.id not in ref_nodes and ok(t)]
    only_ref = [t for t in nodes if t.id in ref_nodes and t.id not in lib_nodes and ok(t)]
    cands = []
    buckets = {}
    for a in only_lib:
        buckets.setdefault(fpkey(fps[a.id]), []).append(a)
    for b in only_ref:
        best = None
        for a in buckets.get(fpkey(fps[b.id]), []):
            if all(close(x, y) for x, y in zip(fps[a.id], fps[b.id])):
                if best is None or size[a.id] < size[best.id]:
                    best = a
        if best is not None:
            cands.append((size[b.id], best, b))
    cands.sort(key=lambda c: c[0])
    S = {}
    n = 0
    i = 0
    while i < len(cands) and n < max_lemmas:
        batch = []
        while i < len(cands) and len(batch) < BATCH:
            sz, a, b = cands[i]
            i += 1
            a2, b2 = tm.subst([a, b], S) if S else (a, b)
            if a2 is b2:
                S[b] = a
                continue
            A2 = tm.subst(list(assumptions), S) if S else list(assumptions)
            lscript = _encode(A2, a2, b2)
            batch.append((sz, a, b, lscript, _submit(chk, lscript, lemma_timeout)))
        for sz, a, b, lscript, fut in batch:
            lres = fut.result()
            n += 1
            if lres['verdict'] == 'unsat':
                ob = framework.Ob('%s#lemma%d' % (name, n), 'lemma', lscript, 'unsat', dict(obligation='cut-point lemma', lhs=tm.show(a, 3), rhs=tm.show(b, 3), size=sz), None, None, (), lemma_timeout, family=family)
                ob.result = lres
                ob.status = 'discharged'
                chk.obs.append(ob)
                S[b] = a
    return S


def resolve_ites(t, lits, chk=None, assumptions=(), timeout=10):
    """replace ite(c, x, y) by the branch selected by the literals {cond term: bool}; undecided conditions are asked to the solver"""
    memo = {}
    for n in tm.topo([t]):
        if not n.a:
            memo[n.id] = n
            continue
        na = tuple(memo[c.id] for c in n.a)
        if n.op == 'ite':
            c = na[0]
            val = truth(c, lits)
            if val is None and chk is not None:
                val = ask(chk, c, lits, assumptions, timeout)
            if val is True:
                memo[n.id] = na[1]
                continue
            if val is False:
                memo[n.id] = na[2]
                continue
        memo[n.id] = n if all(x is y for x, y in zip(na, n.a)) else tm.rebuild(n, na)
    return memo[t.id]


def truth(c, lits):
    if c is tm.TRUE:
        return True
    if c is tm.FALSE:
        return False
    if c in lits:
        return lits[c]
    if c.op == 'not':
        v = truth(c.a[0], lits)
        return None if v is None else (not v)
    return None


def ask(chk, c, lits, assumptions, timeout):
    pcs = [(k if v else tm.lnot(k)) for k, v in lits.items()]
    for want, neg in ((True, tm.lnot(c)), (False, c)):
        enc = smt.Encoder()
        script = enc.script(list(assumptions) + pcs, [neg])
        r = smt.run_solver(script, timeout, workdir=chk.scratch, tag=chk.pid)
        if r['verdict'] == 'unsat':
            return want
    return None


def pathwise_identity(chk, name, paths, ref, assumptions, names, key=None, replay=None, family=None, ufs=None, ranges=None, **kw):
    """lib (given as explored paths) == ref under assumptions, decided path by path"""
    import itertools
    roots = [p['ret'] for p in paths]
    if len(paths) == 1 and not any(t.op == 'ite' for t in tm.topo([ref] + roots)):
        return [sweep_identity(chk, name, roots[0], ref, assumptions, names, key=key, replay=replay, family=family, ufs=ufs, ranges=ranges, **kw)]
    t0_ = time.time()
    S = find_merges(chk, name, roots, ref, assumptions, names, ufs, ranges, family=family)
    if os.environ.get('VERIF_TIMING'):
        print('TIMING find_merges %s %.1fs merges=%d' % (name, time.time() - t0_, len(S)), flush=True)
    ref_m = tm.subst([ref], S)[0] if S else ref
    obs = []
    for k, p in enumerate(paths):
        lits = dict((c, b) for c, b in p['pc'])
        # branch-free selections inside the library value (select instructions) are split like branches: one case per truth
        # assignment of their conditions (every assignment is a case, so the cases cover the whole path)
        conds = []
        for n in tm.topo([p['ret']]):
            if n.op == 'ite' and truth(n.a[0], lits) is None and n.a[0] not in conds:
                conds.append(n.a[0])
        cases = [()] if not conds or len(conds) > 3 else list(itertools.product((True, False), repeat=len(conds)))
        for j, asg in enumerate(cases):
            lits2 = dict(lits)
            lits2.update(zip(conds, asg))
            pcs = [(c if b else tm.lnot(c)) for c, b in lits2.items()]
            A = list(assumptions) + pcs
            lib_p = resolve_ites(p['ret'], lits2) if asg else p['ret']
            ref_p = resolve_ites(ref_m, lits2, chk, assumptions)
            tag = '%s[path %d/%d]' % (name, k + 1, len(paths)) + ('[case %d/%d]' % (j + 1, len(cases)) if asg else '')
            obs.append(sweep_identity(chk, tag, lib_p, ref_p, A, names, key=key, replay=replay, family=family, ufs=ufs, ranges=ranges, **kw))
    return obs
