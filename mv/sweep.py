"""Cut-point sweeping (DESIGN.md §3.3): prove lib == ref bottom-up.  Candidate pairs (library node, reference
node) are found by numeric fingerprints at random points; each candidate is PROVED by its own solver query; proved
pairs are replaced on both sides by one shared fresh variable; the top-level query is asked over the merged DAGs.
Every merge rests on an unsat verdict, and replacing a proved-equal subterm by a free variable only weakens what the
solver may assume, so the final unsat implies the original identity."""
import random
from fractions import Fraction
import terms as tm
from terms import T
import smt
import framework
import replay as rp


def fingerprints(roots, names, seed, npoints=3, ufs=None, ranges=None):
    rng = random.Random(seed)
    nodes = tm.topo(roots)
    fps = {}
    for k in range(npoints):
        env = {}
        for n in names:
            lo, hi = (ranges or {}).get(n, (Fraction(1, 2), Fraction(3, 2)))
            env[n] = rp.mp.mpf(rng.randint(1, 997)) / 997 * (float(hi) - float(lo)) + float(lo)
        val = {}
        for t in nodes:
            try:
                val[t.id] = tm.evalf([t], env, rp.mp, ufs)[0] if False else None
            except Exception:
                val[t.id] = None
        # single pass evaluation (evalf over all nodes at once)
        try:
            vals = eval_all(nodes, env, ufs)
        except Exception:
            vals = {}
        for t in nodes:
            fps.setdefault(t.id, []).append(vals.get(t.id))
    return nodes, fps


def eval_all(nodes, env, ufs):
    """values of every node (nodes is a topological order)"""
    mp = rp.mp
    val = {}
    for t in nodes:
        try:
            if t.op == 'c':
                v = mp.mpf(t.p.numerator) / mp.mpf(t.p.denominator)
            elif t.op == 'sym':
                v = mp.pi if t.p == 'PI' else env[t.p]
            elif t.op == 'undef':
                v = None
            else:
                a = [val.get(c.id) for c in t.a]
                if any(x is None for x in a):
                    v = None
                elif t.op == 'add':
                    v = a[0] + a[1]
                elif t.op == 'sub':
                    v = a[0] - a[1]
                elif t.op == 'mul':
                    v = a[0] * a[1]
                elif t.op == 'div':
                    v = a[0] / a[1]
                elif t.op == 'neg':
                    v = -a[0]
                elif t.op == 'ite':
                    v = a[1] if a[0] else a[2]
                elif t.op == 'lt':
                    v = a[0] < a[1]
                elif t.op == 'le':
                    v = a[0] <= a[1]
                elif t.op == 'eq':
                    v = a[0] == a[1]
                elif t.op == 'not':
                    v = not a[0]
                elif t.op == 'and':
                    v = a[0] and a[1]
                elif t.op == 'or':
                    v = a[0] or a[1]
                elif t.op == 'fn':
                    f = t.p
                    if f == 'pow':
                        v = mp.power(a[0], a[1])
                    elif f == 'fabs':
                        v = abs(a[0])
                    else:
                        v = getattr(mp, f)(a[0])
                elif t.op == 'uf':
                    v = ufs[t.p](*a) if ufs and t.p in ufs else None
                elif t.op in ('i2r', 'r2i'):
                    v = a[0]
                else:
                    v = None
            if v is not None and not isinstance(v, bool) and (isinstance(v, mp.mpc) or not mp.isfinite(v)):
                v = None
        except Exception:
            v = None
        val[t.id] = v
    return val


def fpkey(vals):
    """bucket key of a fingerprint: first value rounded to 18 significant digits (collisions are re-checked with close())"""
    v = vals[0]
    if v is None or isinstance(v, bool):
        return None
    return rp.mp.nstr(v, 18)


def close(a, b):
    if a is None or b is None or isinstance(a, bool) or isinstance(b, bool):
        return False
    return abs(a - b) <= rp.mp.mpf('1e-30') * (1 + abs(a) + abs(b))


def _solve(chk, assumptions, lib, ref, timeout):
    enc = smt.Encoder()
    script = enc.script(list(assumptions), [tm.cmp('ne', lib, ref)])
    return script, smt.run_solver(script, timeout, workdir=chk.scratch, tag=chk.pid), enc


def sweep_identity(chk, name, lib, ref, assumptions, names, key=None, replay=None, family=None, min_size=6, max_lemmas=80, ufs=None, ranges=None,
                   lemma_timeout=10, mono_timeout=15, top_timeout=None):
    """Decides lib == ref under assumptions.  Ladder (first unsat wins, every rung is an exact-or-weaker encoding):
       1. monolithic query; 2. node merging (proved-equal reference nodes are replaced by the library node: definitions kept);
       3. cut-point abstraction (proved-equal nodes replaced by one shared free variable).
    Registers ONE property obligation carrying the deciding verdict, plus the proved lemmas as lemma obligations."""
    top_timeout = top_timeout or chk.qtimeout
    script, res, enc = _solve(chk, assumptions, lib, ref, mono_timeout)
    tried = [('monolithic', res['verdict'], round(res['time'], 2))]
    final = (script, res, 'monolithic')
    lemmas = []
    if res['verdict'] != 'unsat':
        nodes, fps = fingerprints([lib, ref], names, chk.seed + 1, 3, ufs, ranges)
        lib_nodes = set(t.id for t in tm.topo([lib]))
        ref_nodes = set(t.id for t in tm.topo([ref]))
        size = {}
        for t in nodes:
            size[t.id] = 1 + sum(size[c.id] for c in t.a)
        ok = lambda t: t.sort == 'R' and t.a and size[t.id] >= min_size and all(v is not None for v in fps[t.id])
        only_lib = [t for t in nodes if t.id in lib_nodes and t.id not in ref_nodes and ok(t)]
        only_ref = [t for t in nodes if t.id in ref_nodes and t.id not in lib_nodes and ok(t)]
        cands = []
        buckets = {}
        for a in only_lib:
            buckets.setdefault(fpkey(fps[a.id]), []).append(a)
        for b in only_ref:
            for a in buckets.get(fpkey(fps[b.id]), []):
                if all(close(x, y) for x, y in zip(fps[a.id], fps[b.id])):
                    cands.append((max(size[a.id], size[b.id]), a, b))
        cands.sort(key=lambda c: c[0])
        S_merge, S_abs = {}, {}
        used_b = set()
        for sz, a, b in cands:
            if len(lemmas) >= max_lemmas:
                break
            if b.id in used_b:
                continue
            a2, b2 = tm.subst([a, b], S_merge)
            if a2 is b2:
                continue
            A2 = tm.subst(list(assumptions), S_merge) if S_merge else list(assumptions)
            lscript, lres, _ = _solve(chk, A2, a2, b2, lemma_timeout)
            ob = framework.Ob('%s#lemma%d' % (name, len(lemmas)), 'lemma', lscript, 'unsat', dict(obligation='cut-point lemma', lhs=tm.show(a, 3), rhs=tm.show(b, 3), size=sz), None, None, (), lemma_timeout, family=family)
            ob.result = lres
            if lres['verdict'] == 'unsat':
                ob.status = 'discharged'
                chk.obs.append(ob)
                lemmas.append((a, b))
                S_merge[b] = a
                v = tm.sym('cut:%s:%d' % (name, len(lemmas)))
                if a not in S_abs:
                    S_abs[a] = v
                S_abs[b] = S_abs[a]
                used_b.add(b.id)
        if lemmas:
            lib2, ref2 = tm.subst([lib, ref], S_merge)
            A2 = tm.subst(list(assumptions), S_merge)
            script2, res2, enc2 = _solve(chk, A2, lib2, ref2, top_timeout)
            tried.append(('node-merging', res2['verdict'], round(res2['time'], 2)))
            if res2['verdict'] == 'unsat' or final[1]['verdict'] not in ('sat',):
                final = (script2, res2, 'node-merging')
            if res2['verdict'] != 'unsat':
                lib3, ref3 = tm.subst([lib, ref], S_abs)
                A3 = tm.subst(list(assumptions), S_abs)
                script3, res3, enc3 = _solve(chk, A3, lib3, ref3, top_timeout)
                tried.append(('cut-point-abstraction', res3['verdict'], round(res3['time'], 2)))
                if res3['verdict'] == 'unsat':
                    final = (script3, res3, 'cut-point-abstraction')
                elif final[1]['verdict'] not in ('sat', 'unsat'):
                    final = (script3, res3, 'cut-point-abstraction')
    script, res, how = final
    ob = framework.Ob(name, 'prop', script, 'unsat', dict(obligation=name, decided_by=how, ladder=tried, lemmas_proved=len(lemmas), lhs=tm.show(lib, 3), rhs=tm.show(ref, 3)),
                      replay, key, (), family=family)
    ob.result = res
    chk.obs.append(ob)
    chk.classify(ob)
    return ob


def find_merges(chk, name, lib_roots, ref, assumptions, names, ufs=None, ranges=None, min_size=4, max_lemmas=120, lemma_timeout=10, family=None):
    """reference nodes proved equal (under the assumptions) to library nodes -> {ref node: lib node}; lemmas are registered"""
    nodes, fps = fingerprints(list(lib_roots) + [ref], names, chk.seed + 1, 3, ufs, ranges)
    lib_nodes = set(t.id for t in tm.topo(list(lib_roots)))
    ref_nodes = set(t.id for t in tm.topo([ref]))
    size = {}
    for t in nodes:
        size[t.id] = 1 + sum(size[c.id] for c in t.a)
    ok = lambda t: t.sort == 'R' and t.a and t.op != 'ite' and size[t.id] >= min_size and all(v is not None for v in fps[t.id])
    only_lib = [t for t in nodes if t.id in lib_nodes and t.id not in ref_nodes and ok(t)]
    only_ref = [t for t in nodes if t.id in ref_nodes and t.id not in lib_nodes and ok(t)]
    cands = []
    buckets = {}
    for a in only_lib:
        buckets.setdefault(fpkey(fps[a.id]), []).append(a)
    for b in only_ref:
        best = None
        for a in buckets.get(fpkey(fps[b.id]), []):
            if all(close(x, y) for x, y in zip(fps[a.id], fps[b.id])):
                if best is None or size[a.id] < size[best.id]:
                    best = a
        if best is not None:
            cands.append((size[b.id], best, b))
    cands.sort(key=lambda c: c[0])
    S = {}
    n = 0
    for sz, a, b in cands:
        if n >= max_lemmas:
            break
        a2, b2 = tm.subst([a, b], S) if S else (a, b)
        if a2 is b2:
            S[b] = a
            continue
        A2 = tm.subst(list(assumptions), S) if S else list(assumptions)
        lscript, lres, _ = _solve(chk, A2, a2, b2, lemma_timeout)
        n += 1
        if lres['verdict'] == 'unsat':
            ob = framework.Ob('%s#lemma%d' % (name, n), 'lemma', lscript, 'unsat', dict(obligation='cut-point lemma', lhs=tm.show(a, 3), rhs=tm.show(b, 3), size=sz), None, None, (), lemma_timeout, family=family)
            ob.result = lres
            ob.status = 'discharged'
            chk.obs.append(ob)
            S[b] = a
    return S


def resolve_ites(t, lits, chk=None, assumptions=(), timeout=10):
    """replace ite(c, x, y) by the branch selected by the literals {cond term: bool}; undecided conditions are asked to the solver"""
    memo = {}
    for n in tm.topo([t]):
        if not n.a:
            memo[n.id] = n
            continue
        na = tuple(memo[c.id] for c in n.a)
        if n.op == 'ite':
            c = na[0]
            val = truth(c, lits)
            if val is None and chk is not None:
                val = ask(chk, c, lits, assumptions, timeout)
            if val is True:
                memo[n.id] = na[1]
                continue
            if val is False:
                memo[n.id] = na[2]
                continue
        memo[n.id] = n if all(x is y for x, y in zip(na, n.a)) else tm.rebuild(n, na)
    return memo[t.id]


def truth(c, lits):
    if c is tm.TRUE:
        return True
    if c is tm.FALSE:
        return False
    if c in lits:
        return lits[c]
    if c.op == 'not':
        v = truth(c.a[0], lits)
        return None if v is None else (not v)
    return None


def ask(chk, c, lits, assumptions, timeout):
    pcs = [(k if v else tm.lnot(k)) for k, v in lits.items()]
    for want, neg in ((True, tm.lnot(c)), (False, c)):
        enc = smt.Encoder()
        script = enc.script(list(assumptions) + pcs, [neg])
        r = smt.run_solver(script, timeout, workdir=chk.scratch, tag=chk.pid)
        if r['verdict'] == 'unsat':
            return want
    return None


def pathwise_identity(chk, name, paths, ref, assumptions, names, key=None, replay=None, family=None, ufs=None, ranges=None, **kw):
    """lib (given as explored paths) == ref under assumptions, decided path by path"""
    roots = [p['ret'] for p in paths]
    if len(paths) == 1 and not any(t.op == 'ite' for t in tm.topo([ref])):
        return [sweep_identity(chk, name, roots[0], ref, assumptions, names, key=key, replay=replay, family=family, ufs=ufs, ranges=ranges, **kw)]
    S = find_merges(chk, name, roots, ref, assumptions, names, ufs, ranges, family=family)
    ref_m = tm.subst([ref], S)[0] if S else ref
    obs = []
    for k, p in enumerate(paths):
        lits = dict((c, b) for c, b in p['pc'])
        pcs = [(c if b else tm.lnot(c)) for c, b in p['pc']]
        A = list(assumptions) + pcs
        ref_p = resolve_ites(ref_m, lits, chk, assumptions)
        obs.append(sweep_identity(chk, '%s[path %d/%d]' % (name, k + 1, len(paths)), p['ret'], ref_p, A, names, key=key, replay=replay, family=family, ufs=ufs, ranges=ranges, **kw))
    return obs
