"""Engine A: symbolic interpreter of the clang IR dumped by irdump (DESIGN.md §3).

Values: Python int (concrete integer, signed canonical form), terms.T (symbolic / real), Ptr, FnPtr.
Paths are explored by re-execution under a decision schedule (each symbolic branch is one
decision); every path starts from a clone of the initial state.
"""
from fractions import Fraction
import terms as tm
from terms import T


class ExecError(Exception):
    pass


class UnwindBound(ExecError):
    pass


class Infeasible(ExecError):
    """the current path condition is unsatisfiable (decided by the solver): the path is dropped"""
    pass


def int_feasible(lits):
    """satisfiability over the integers of the integer-sorted part of a path condition (z3, linear integer arithmetic);
    literals that are not purely integer are ignored (weaker condition => may only keep an infeasible path, never drop a feasible one)"""
    try:
        import z3
    except Exception:
        return True
    vars_ = {}

    def conv(t):
        if t.op == 'c':
            if t.p.denominator != 1:
                raise ValueError
            return z3.IntVal(int(t.p))
        if t.op == 'sym' and t.sort == 'I':
            return vars_.setdefault(t.p, z3.Int(t.p))
        if t.sort == 'I' and t.op in ('add', 'sub', 'mul'):
            a, b = conv(t.a[0]), conv(t.a[1])
            return a + b if t.op == 'add' else (a - b if t.op == 'sub' else a * b)
        if t.sort == 'I' and t.op == 'neg':
            return -conv(t.a[0])
        if t.op in ('eq', 'lt', 'le') and all(x.sort == 'I' for x in t.a):
            a, b = conv(t.a[0]), conv(t.a[1])
            return a == b if t.op == 'eq' else (a < b if t.op == 'lt' else a <= b)
        if t.op == 'not':
            return z3.Not(conv(t.a[0]))
        if t.op == 'and':
            return z3.And(conv(t.a[0]), conv(t.a[1]))
        if t.op == 'or':
            return z3.Or(conv(t.a[0]), conv(t.a[1]))
        raise ValueError
    sol = z3.Solver()
    sol.set('timeout', 2000)
    for c, b in lits:
        try:
            e = conv(c)
        except ValueError:
            continue
        sol.add(e if b else z3.Not(e))
    return sol.check() != z3.unsat


class Terminal(Exception):
    """exit()/throw reached"""
    def __init__(self, kind, val):
        Exception.__init__(self, kind)
        self.kind = kind
        self.val = val


class Ptr(object):
    __slots__ = ('rid', 'off')

    def __init__(self, rid, off):
        self.rid = rid
        self.off = off

    def __repr__(self):
        return 'Ptr(%s,%s)' % (self.rid, self.off)

    def __eq__(self, o):
        return isinstance(o, Ptr) and o.rid == self.rid and o.off == self.off

    def __ne__(self, o):
        return not self.__eq__(o)

    def __hash__(self):
        return hash((self.rid, self.off))


class FnPtr(object):
    __slots__ = ('name',)

    def __init__(self, name):
        self.name = name

    def __repr__(self):
        return 'Fn(%s)' % self.name

    def __eq__(self, o):
        return isinstance(o, FnPtr) and o.name == self.name

    def __hash__(self):
        return hash(self.name)


NULL = Ptr(0, 0)


class Region(object):
    __slots__ = ('rid', 'kind', 'size', 'alive', 'name', 'data', 'fresh')

    def __init__(self, rid, kind, size, name=None):
        self.rid = rid
        self.kind = kind      # 'null','global','alloca','heap','obj','ext','entry','vecbuf'
        self.size = size
        self.alive = True
        self.name = name
        self.data = None      # bytes for constant byte arrays
        self.fresh = True     # unwritten memory reads as undef


class State(object):
    def __init__(self):
        self.regions = {0: Region(0, 'null', 0, 'null')}
        self.mem = {}          # (rid, off) -> (size, value)
        self.side = {}         # (rid, off) -> container model object (must have .clone())
        self.events = []
        self.pc = []           # list of (cond term, bool)
        self.next_rid = 1
        self.writes = []       # (rid, off, size)
        self.gmap = {}         # global linked name -> rid
        self.live_heap = set()
        self.notes = []
        self.owned = set([0])        # region ids whose Region object is private to this state (copy-on-write)
        self.side_owned = set()      # side-table keys whose model object is private to this state
        self.distinct = []           # harness assumptions (Bool terms) that hold in this state
        self.side_log = []           # keys of side-table entries written (used by the call-effect cache)

    def mut(self, rid):
        """Region object that may be mutated (copy-on-write across clones)"""
        r = self.regions[rid]
        if rid not in self.owned:
            n = Region(r.rid, r.kind, r.size, r.name)
            n.alive = r.alive
            n.data = r.data
            n.fresh = r.fresh
            self.regions[rid] = n
            self.owned.add(rid)
            return n
        return r

    def side_mut(self, key):
        self.side_log.append(key)
        v = self.side[key]
        if key not in self.side_owned:
            v = v.clone()
            self.side[key] = v
            self.side_owned.add(key)
        return v

    def side_set(self, key, v):
        self.side_log.append(key)
        self.side[key] = v
        self.side_owned.add(key)

    def clone(self):
        s = State()
        s.regions = dict(self.regions)
        s.owned = set()
        s.mem = dict(self.mem)
        s.side = dict(self.side)
        s.side_owned = set()
        s.distinct = list(self.distinct)
        s.side_log = []
        s.events = list(self.events)
        s.pc = list(self.pc)
        s.next_rid = self.next_rid
        s.writes = list(self.writes)
        s.gmap = dict(self.gmap)
        s.live_heap = set(self.live_heap)
        s.notes = list(self.notes)
        return s

    def new_region(self, kind, size, name=None):
        r = Region(self.next_rid, kind, size, name)
        self.regions[r.rid] = r
        self.owned.add(r.rid)
        self.next_rid += 1
        if kind == 'heap':
            self.live_heap.add(r.rid)
        return r

    def event(self, *e):
        self.events.append(tuple(e))


def wrap(v, w):
    v &= (1 << w) - 1
    if w > 1 and v >> (w - 1):
        v -= 1 << w
    return v


def width(t):
    return int(t[1:])


_snap_cache = {}


class Frame(object):
    __slots__ = ('f', 'vals', 'args', 'allocas', 'visits')

    def __init__(self, f, args):
        self.f = f
        self.vals = {}
        self.args = args
        self.allocas = []
        self.visits = {}


class Ex(object):
    def __init__(self, prog, models):
        self.prog = prog
        self.models = models          # object with .lookup(name) -> callable or None
        self.st = None
        self.schedule = []
        self.decisions = []
        self.pending = []
        self.opaque = {}              # fname -> callable(ex, args, inst)  (summaries)
        self.max_visits = 64          # unwinding bound for symbolic loops
        self.snap_mode = 'strict'     # 'strict' | 'lenient' | 'exact'
        self.nonsimple = []           # (function, type, value) of constants that could not be snapped
        self.dimg = {}                # 'lenient-sym' mode: symbol -> (intended value term, actual value term) of double-image constants
        self.cur_fn = None
        self.depth = 0
        self.trace_calls = None
        self.uninit_events = True
        self.concrete_branch_count = 0
        self.step_budget = 5000000
        self.steps = 0
        self.hooks = {}               # fname -> callable(ex, f, args) called at entry (instrumentation)
        self.called = set()
        self.memo_fns = set()
        self.memo = {}
        self.fp_log = None            # optional list collecting every FP constant decoded: (function, type, exact value)

    # ------------------------------------------------------------------------------------------
    # state initialisation
    def init_state(self, run_ctors=True):
        st = State()
        self.st = st
        for name, g in self.prog.globals.items():
            self._materialise_global(name)
        if run_ctors:
            for mod, data in self.prog.modules.items():
                g = data['globals'].get('llvm.global_ctors')
                if not g or 'init' not in g:
                    continue
                for ent in g['init']:
                    v = ent.get('val')
                    if v and v.get('k') == 'fn':
                        fn = self.prog.resolve_fn(mod, v['name'])
                        self.cur_mod = mod
                        self.call(fn, [])
        return st

    def _materialise_global(self, name):
        st = self.st
        if name in st.gmap:
            return st.gmap[name]
        g = self.prog.globals.get(name)
        size = g.get('size', 0) if g else 0
        r = st.new_region('global', size, name)
        st.gmap[name] = r.rid
        if g is None or g.get('decl'):
            r.kind = 'ext'
            r.fresh = False
            return r.rid
        r.fresh = False
        mod = g['module']
        for ent in g.get('init', []):
            v = ent['val']
            off = ent['off']
            k = v['k']
            if k == 'bytes':
                b = bytes.fromhex(v['hex'])
                if r.data is None:
                    r.data = {}
                r.data[off] = b
            elif k == 'zero':
                pass    # zero-initialised: handled by load default
            else:
                st.mem[(r.rid, off)] = (ent['size'], self.operand(v, mod, ent.get('t')))
        return r.rid

    # ------------------------------------------------------------------------------------------
    # operands
    def operand(self, o, mod=None, ty=None, fr=None):
        k = o['k']
        if k == 'v':
            try:
                return fr.vals[o['id']]
            except KeyError:
                raise ExecError('use of undefined value %%%d in %s' % (o['id'], fr.f['name']))
        if k == 'arg':
            return fr.args[o['i']]
        if k == 'ci':
            return wrap(int(o['v']), o['w'])
        if k == 'cf':
            return self.fpconst(o['bits'], o['t'])
        if k == 'null':
            return NULL
        if k == 'g':
            name = self.prog.resolve_global(mod, o['name'])
            rid = self.st.gmap.get(name)
            if rid is None:
                rid = self._materialise_global(name)
            return Ptr(rid, o['off'])
        if k == 'fn':
            return FnPtr(self.prog.resolve_fn(mod, o['name']))
        if k == 'undef':
            t = o.get('t', 'i32')
            return tm.undef('ir-undef', self.sort_of(t))
        if k == 'zero':
            return 0
        if k == 'bb':
            return o['id']
        raise ExecError('operand kind %s' % k)

    @staticmethod
    def sort_of(t):
        if t in ('f64', 'f80', 'f32'):
            return 'R'
        if t == 'ptr':
            return 'P'
        return 'I'

    def fpconst(self, bits, ty):
        v, kind = tm.decode_fp(bits, ty)
        if self.fp_log is not None and v is not None:
            self.fp_log.append((self.cur_fn, ty, v))
        if v is None:
            return tm.sym('FP_' + kind.replace('-', 'neg'), 'R')
        if self.snap_mode == 'exact':
            return tm.const(v)
        ck = (bits, ty)
        hit = _snap_cache.get(ck)
        if hit is None:
            hit = tm.snap(v, ty)
            _snap_cache[ck] = hit if hit is not None else False
        r = hit if hit is not False else None
        lenient = self.snap_mode in ('lenient', 'lenient-sym')

        def image(intended):
            # 'lenient-sym' (C09): the constant is a symbol whose intended and actual values are kept side by side
            if self.snap_mode != 'lenient-sym':
                return intended
            k = len(self.dimg) + 1
            sy = tm.sym('dimg#%d' % k)
            self.dimg[sy] = (intended, tm.const(v))
            return sy
        if r is None and lenient and ty == 'f80':
            r2 = tm.snap(v, 'f64')
            if r2 is not None and tm.round_to(r2, 53) == v:
                self.nonsimple.append((self.cur_fn, ty, v, 'double-image', r2))
                return image(tm.const(r2))
        if r is None and lenient:
            # a rounding of q*pi or q/pi (M_PI style literals): the intended value is the multiple of pi; in long double code a literal that is
            # only the DOUBLE rounding of it is recorded like a double-image constant
            for ty2 in ((ty,) if ty != 'f80' else ('f80', 'f64')):
                hp = tm.snap_pi(v, ty2)
                if hp is not None and (ty2 == ty or tm.round_to(v, 53) == v):
                    q, inverse = hp
                    val_ = (tm.const(q) / tm.PI) if inverse else (tm.const(q) * tm.PI)
                    if ty2 != ty:
                        self.nonsimple.append((self.cur_fn, ty, v, 'double-image', 'pi*%s' % q if not inverse else '%s/pi' % q))
                        return image(val_)
                    return val_
        if r is None:
            self.nonsimple.append((self.cur_fn, ty, v, 'nonsimple', None))
            return tm.const(v)
        return tm.const(r)

    # ------------------------------------------------------------------------------------------
    # memory
    def check_live(self, p, what):
        r = self.st.regions.get(p.rid)
        if r is None or r.kind == 'null':
            self.st.event('null-deref', what, self.cur_fn)
            raise ExecError('null dereference (%s) in %s' % (what, self.cur_fn))
        if not r.alive:
            self.st.event('dangling', what, r.kind, r.name, self.cur_fn)
        return r

    def load(self, p, size, ty):
        if not isinstance(p, Ptr):
            if isinstance(p, T) and p.op == 'undef':
                self.st.event('uninit-use', 'address', self.cur_fn)
            raise ExecError('load through non-pointer %r in %s' % (p, self.cur_fn))
        r = self.check_live(p, 'load')
        if not isinstance(p.off, int):
            raise ExecError('symbolic offset load')
        if r.kind != 'ext' and r.size and (p.off < 0 or p.off + size > r.size):
            self.st.event('oob', 'load', r.kind, r.name, p.off, size, r.size, self.cur_fn)
        ent = self.st.mem.get((p.rid, p.off))
        if ent is not None:
            sz, v = ent
            if sz == size or (isinstance(v, T) and v.sort == 'R' and ty in ('f64', 'f80') and sz >= 8):
                return self.retag(v, ty)
            if sz > size and isinstance(v, int):
                return wrap(v, size * 8)
        if r.data is not None:
            for boff, b in r.data.items():
                if boff <= p.off and p.off + size <= boff + len(b):
                    v = int.from_bytes(b[p.off - boff:p.off - boff + size], 'little')
                    return wrap(v, size * 8)
        # byte-wise read out of a wider concrete int
        if ent is None:
            for (rid, off), (sz, v) in self.st.mem.items():
                if rid == p.rid and off < p.off < off + sz and isinstance(v, int) and p.off + size <= off + sz:
                    raw = v & ((1 << (sz * 8)) - 1)
                    return wrap(raw >> ((p.off - off) * 8), size * 8)
        if r.kind == 'ext':
            # external object we know nothing about
            v = tm.sym('ext:%s+%d' % (r.name, p.off), self.sort_of(ty))
            return v
        if not r.fresh:
            # zero-initialised global
            if ty == 'ptr':
                return NULL
            if ty in ('f64', 'f80', 'f32'):
                return tm.ZERO
            return 0
        u = tm.undef('%s:%s+%d' % (r.kind, r.name, p.off), self.sort_of(ty))
        self.st.notes.append(('undef-load', r.kind, r.name, p.off, self.cur_fn))
        return u

    def retag(self, v, ty):
        return v

    def store(self, p, size, v):
        if not isinstance(p, Ptr):
            raise ExecError('store through non-pointer %r in %s' % (p, self.cur_fn))
        r = self.check_live(p, 'store')
        if isinstance(p.off, tuple) and p.off[0] == 'cstr-end':
            # buf[strlen(s)] = 0 right after s was copied into buf without its terminator: the buffer now holds exactly s
            _, base, sterm = p.off
            sv = self.st.side.get((p.rid, base))
            cur = sv.cstr_value() if sv is not None and hasattr(sv, 'cstr_value') else None
            if size == 1 and v == 0 and isinstance(cur, T) and cur.op == 'uf' and cur.p == 'unterminated-prefix-over' and cur.a[0] is sterm:
                nv = sv.clone()
                nv.v = sterm
                self.st.side_set((p.rid, base), nv)
                self.st.writes.append((p.rid, base, 1))
                return
            raise ExecError('store at a symbolic string offset in %s' % self.cur_fn)
        if not isinstance(p.off, int):
            raise ExecError('symbolic offset store')
        if r.kind != 'ext' and r.size and (p.off < 0 or p.off + size > r.size):
            self.st.event('oob', 'store', r.kind, r.name, p.off, size, r.size, self.cur_fn)
        if r.kind == 'global':
            g = self.prog.globals.get(r.name)
            if g is not None and g.get('const'):
                self.st.event('store-to-const', r.name, self.cur_fn)
        # kill overlapping entries
        mem = self.st.mem
        for d in range(1, 16):
            e = mem.get((p.rid, p.off - d))
            if e is not None and e[0] > d:
                del mem[(p.rid, p.off - d)]
        for d in range(1, size):
            mem.pop((p.rid, p.off + d), None)
        mem[(p.rid, p.off)] = (size, v)
        self.st.writes.append((p.rid, p.off, size))

    def cstring(self, p):
        """read a NUL-terminated string at p -> Python str or symbolic string term"""
        r = self.check_live(p, 'cstring')
        sv = self.st.side.get((p.rid, p.off))
        if sv is not None and hasattr(sv, 'cstr_value'):
            return sv.cstr_value()
        if r.data is not None:
            for boff, b in r.data.items():
                if boff <= p.off < boff + len(b):
                    e = b.index(b'\0', p.off - boff)
                    return b[p.off - boff:e].decode('latin1')
        # byte-wise from mem
        out = []
        o = p.off
        while True:
            e = self.st.mem.get((p.rid, o))
            if e is None and not r.fresh and r.kind == 'global':
                break       # zero-initialised
            if e is None or not isinstance(e[1], int):
                raise ExecError('cstring: unreadable byte at %r+%d' % (r.name, o))
            c = e[1] & 0xff
            if c == 0:
                break
            out.append(chr(c))
            o += 1
        return ''.join(out)

    # ------------------------------------------------------------------------------------------
    # decisions
    def decide(self, cond):
        """cond: Bool term (or Python bool/int) -> Python bool, forking if needed"""
        if isinstance(cond, bool):
            return cond
        if isinstance(cond, int):
            return cond != 0
        if cond is tm.TRUE:
            return True
        if cond is tm.FALSE:
            return False
        if cond.op == 'not':
            return not self.decide(cond.a[0])
        st = self.st
        for c, b in st.pc:
            if c is cond:
                return b
        imp = self._implied(cond)
        if imp is not None:
            return imp
        g = self._ground(cond)
        if g is not None:
            return g
        if cond.op == 'undef' or any(x.op == 'undef' for x in cond.a):
            if self.uninit_events:
                st.event('uninit-use', 'branch', self.cur_fn)
        lg = getattr(self, 'loop_guard', None)
        if lg:
            fr_, bi_, fname_ = lg
            k = fr_.visits.get(('fork', bi_), 0) + 1
            fr_.visits[('fork', bi_)] = k
            if k > self.max_visits:
                raise UnwindBound('unwinding bound %d (symbolic decisions at one branch of one activation) reached in %s' % (self.max_visits, fname_))
        n = len(self.decisions)
        if n < len(self.schedule):
            b = self.schedule[n]
        else:
            b = getattr(self, 'default_decision', True)
            if callable(b):
                forced = b(cond)
                if forced is not None:
                    # directed exploration: this condition is forced, the other branch is deliberately not explored
                    st.pc.append((cond, forced))
                    return forced
                b = True
            self.pending.append(self.decisions + [not b])
        self.decisions.append(b)
        st.pc.append((cond, b))
        return b

    def _ground(self, cond):
        """ground comparison (only constants, PI and libm atoms of those): decided by 50-digit evaluation,
        refused when the two sides are closer than 1e-30 (then the branch stays symbolic)"""
        if cond.op not in ('lt', 'le', 'eq'):
            return None
        for t in tm.topo([cond]):
            if t.op in ('undef', 'uf') or (t.op == 'sym' and t.p != 'PI'):
                return None
        import mpmath
        mp = mpmath.mp.clone()
        mp.dps = 50
        try:
            a, b = tm.evalf(list(cond.a), {}, mp)
        except Exception:
            return None
        try:
            if not (mp.isfinite(a) and mp.isfinite(b)) or abs(a - b) < mp.mpf('1e-30'):
                return None
            return bool(a < b) if cond.op in ('lt', 'le') else False
        except TypeError:
            return None          # complex or otherwise unordered values (root/log of a negative constant): the branch stays symbolic

    def _implied(self, cond):
        """cheap syntactic implication from the path condition (integer equalities / orderings with constants)"""
        if cond.op in ('eq', 'lt', 'le') and cond.a[0].sort in ('I', 'S', 'R'):
            x, y = cond.a
            for c, b in self.st.pc:
                if c.op == 'eq' and b:
                    # x == k known
                    if c.a[0] is x and tm.isc(c.a[1]) and tm.isc(y):
                        return tm.cmp(cond.op, c.a[1], y) is tm.TRUE
                    if c.a[1] is x and tm.isc(c.a[0]) and tm.isc(y):
                        return tm.cmp(cond.op, c.a[0], y) is tm.TRUE
                    if c.a[0] is y and tm.isc(c.a[1]) and tm.isc(x):
                        return tm.cmp(cond.op, x, c.a[1]) is tm.TRUE
                    if c.a[1] is y and tm.isc(c.a[0]) and tm.isc(x):
                        return tm.cmp(cond.op, x, c.a[0]) is tm.TRUE
        return None

    # ------------------------------------------------------------------------------------------
    # calls
    def call(self, fname, args, inst=None):
        self.called.add(fname)
        if self.trace_calls is not None:
            self.trace_calls.append(fname)
        op = self.opaque.get(fname)
        if op is not None:
            return op(self, args, inst)
        f = self.prog.functions.get(fname)
        if f is None and fname in self.prog.aliases:
            fname = self.prog.aliases[fname]
            f = self.prog.functions.get(fname)
        if f is None:
            m = self.models.lookup(fname)
            if m is None:
                raise ExecError('no definition or model for %s (called from %s)' % (fname, self.cur_fn))
            return m(self, args, inst)
        m = self.models.override(fname)
        if m is not None:
            return m(self, args, inst)
        if fname in self.memo_fns:
            return self.call_memo(fname, f, args)
        return self.run_function(f, args)

    # ------------------------------------------------------------------------------------------
    # call-effect cache: a deterministic, input-free constructor sequence (get_list_mms) is executed once per process;
    # later calls re-instantiate its recorded effect with fresh region ids.  Valid because the callee reads nothing but
    # constants and its (empty) output vector, makes no symbolic decision, and every region it touches is new or the argument.
    @staticmethod
    def _copy_region(r):
        n = Region(r.rid, r.kind, r.size, r.name)
        n.alive, n.data, n.fresh = r.alive, r.data, r.fresh
        return n

    def call_memo(self, fname, f, args):
        st = self.st
        from models import VecVal
        vec = st.side.get((args[0].rid, args[0].off)) if len(args) == 1 and isinstance(args[0], Ptr) else None
        if not isinstance(vec, VecVal) or vec.n != 0:
            return self.run_function(f, args)
        rec = self.memo.get(fname)
        if rec is None:
            base = st.next_rid
            nw, ns, ne, nd = len(st.writes), len(st.side_log), len(st.events), len(self.decisions)
            live0 = set(st.live_heap)
            ret = self.run_function(f, args)
            if len(self.decisions) != nd:
                return ret
            arg_r, buf_r = args[0].rid, vec.buf
            touched = set((w[0], w[1]) for w in st.writes[nw:])
            memw = [(k, st.mem[k]) for k in touched if k in st.mem]
            ok = all(k[0] >= base or k[0] in (arg_r, buf_r) for k, _ in memw)
            skeys = list(dict.fromkeys(st.side_log[ns:]))
            ok = ok and all(k[0] >= base or k[0] in (arg_r, buf_r) for k in skeys)
            if ok:
                self.memo[fname] = dict(base=base, end=st.next_rid, arg=arg_r, buf=buf_r, regions=[self._copy_region(st.regions[r]) for r in range(base, st.next_rid)],
                                        mem=memw, side=[(k, (st.side[k].clone() if k in st.side else None)) for k in skeys], events=st.events[ne:], writes=st.writes[nw:],
                                        live=sorted(set(st.live_heap) - live0), ret=ret, bufsize=st.regions[buf_r].size)
            return ret
        delta = st.next_rid - rec['base']
        amap = {rec['arg']: args[0].rid, rec['buf']: vec.buf}

        def rr(rid):
            if rid in amap:
                return amap[rid]
            return rid + delta if rid >= rec['base'] else rid

        def rv(v):
            if isinstance(v, Ptr):
                return Ptr(rr(v.rid), v.off)
            return v
        for r in rec['regions']:
            n = Region(r.rid + delta, r.kind, r.size, r.name)
            n.alive, n.data, n.fresh = r.alive, r.data, r.fresh
            st.regions[n.rid] = n
            st.owned.add(n.rid)
        st.next_rid = rec['end'] + delta
        for (rid, off), (sz, v) in rec['mem']:
            st.mem[(rr(rid), off)] = (sz, rv(v))
        for (rid, off), obj in rec['side']:
            if obj is None:
                st.side.pop((rr(rid), off), None)
                continue
            o = obj.clone()
            if hasattr(o, 'buf'):
                o.buf = rr(o.buf)
            if hasattr(o, 'entries'):
                o.entries = [(k, rr(e)) for k, e in o.entries]
                o.end = rr(o.end) if o.end is not None else None
            st.side_set((rr(rid), off), o)
        st.mut(vec.buf).size = rec['bufsize']
        for e in rec['events']:
            st.events.append(tuple(rr(x) if (i == 1 and e[0] in ('new', 'delete') and isinstance(x, int)) else x for i, x in enumerate(e)))
        for w_ in rec['writes']:
            st.writes.append((rr(w_[0]), w_[1], w_[2]))
        for r in rec['live']:
            st.live_heap.add(rr(r))
        return rec['ret']

    def run_function(self, f, args):
        if self.depth > 200:
            raise ExecError('call depth exceeded in %s' % f['name'])
        h = self.hooks.get(f['name'])
        if h is not None:
            h(self, f, args)
        saved = (self.cur_fn, getattr(self, 'cur_mod', None))
        self.cur_fn = f['name']
        self.cur_mod = f['module']
        self.depth += 1
        fr = Frame(f, args)
        try:
            return self._run(fr)
        finally:
            self.depth -= 1
            self.cur_fn, self.cur_mod = saved
            for rid in fr.allocas:
                self.st.mut(rid).alive = False

    def _run(self, fr):
        f = fr.f
        blocks = f['blocks']
        mod = f['module']
        bi = 0
        prev = None
        st = self.st
        while True:
            blk = blocks[bi]
            fr.visits[bi] = fr.visits.get(bi, 0) + 1
            # phis first (parallel assignment)
            pvals = None
            for ins in blk:
                if ins['op'] != 'phi':
                    break
                if pvals is None:
                    pvals = []
                for v, b in ins['inc']:
                    if b == prev:
                        pvals.append((ins['id'], self.operand(v, mod, ins['t'], fr)))
                        break
                else:
                    raise ExecError('phi without incoming for block %s' % prev)
            if pvals:
                for i, v in pvals:
                    fr.vals[i] = v
            for ins in blk:
                op = ins['op']
                if op == 'phi':
                    continue
                self.steps += 1
                if self.steps > self.step_budget:
                    raise ExecError('step budget exceeded')
                if op == 'br':
                    if 'cond' in ins:
                        c = self.operand(ins['cond'], mod, 'i1', fr)
                        if isinstance(c, T):
                            self.loop_guard = (fr, bi, f['name'])
                            try:
                                c = self.decide(self.as_bool(c))
                            finally:
                                self.loop_guard = None
                        nb = ins['t1'] if c else ins['t0']
                    else:
                        nb = ins['dest']
                    prev, bi = bi, nb
                    break
                if op == 'ret':
                    if ins['ops']:
                        return self.operand(ins['ops'][0], mod, None, fr)
                    return None
                if op == 'switch':
                    c = self.operand(ins['cond'], mod, None, fr)
                    nb = None
                    if isinstance(c, T):
                        for cv, dest in ins['cases']:
                            k = self.operand(cv, mod)
                            if self.decide(tm.cmp('eq', c, tm.iconst(k))):
                                nb = dest
                                break
                    else:
                        for cv, dest in ins['cases']:
                            if self.operand(cv, mod) == c:
                                nb = dest
                                break
                    if nb is None:
                        nb = ins['default']
                    prev, bi = bi, nb
                    break
                if op == 'unreachable':
                    raise ExecError('unreachable executed in %s' % f['name'])
                if op == 'invoke':
                    try:
                        r = self.do_call(ins, mod, fr)
                    except Terminal as t_:
                        # an exception leaving the callee unwinds into this invoke's landing pad: when that pad enforces an exception
                        # specification (throw() / noexcept: filter clause -> __cxa_call_unexpected, or __clang_call_terminate) the
                        # process is terminated instead of the exception reaching the caller
                        if t_.kind == 'throw' and self.pad_terminates(f, mod, ins['unwind']):
                            self.st.event('terminate', f['name'], t_.val)
                            raise Terminal('terminate', ('exception specification of %s' % f['name'], t_.val))
                        raise
                    if ins['t'] != 'void':
                        fr.vals[ins['id']] = r
                    prev, bi = bi, ins['normal']
                    break
                if op == 'resume':
                    raise ExecError('resume executed')
                r = self.step(ins, mod, fr)
                if ins['t'] != 'void':
                    fr.vals[ins['id']] = r
            else:
                raise ExecError('block without terminator')

    def pad_terminates(self, f, mod, bi):
        """does the landing pad block bi (following unconditional branches) end in std::terminate / std::unexpected?"""
        seen = set()
        while bi is not None and bi not in seen and len(seen) < 8:
            seen.add(bi)
            nxt = None
            for ins in f['blocks'][bi]:
                if ins['op'] in ('call', 'invoke'):
                    try:
                        cal = self.prog.resolve_fn(mod, ins['callee']) if 'callee' in ins else ''
                    except Exception:
                        cal = str(ins.get('callee'))
                    if '__cxa_call_unexpected' in cal or '__clang_call_terminate' in cal or 'terminate' in cal:
                        return True
                if ins['op'] == 'br' and not ins.get('cond') and 'dest' in ins:
                    nxt = ins['dest']
                if ins['op'] == 'resume':
                    return False
            bi = nxt
        return False

    def as_bool(self, c):
        if isinstance(c, T):
            if c.sort == 'B':
                return c
            if c.op == 'undef':
                return tm.mk('undef', (), c.p, 'B')
            return tm.cmp('ne', c, tm.iconst(0))
        return tm.TRUE if c else tm.FALSE

    def do_call(self, ins, mod, fr):
        args = [self.operand(a, mod, t, fr) for a, t in zip(ins['args'], ins['argt'])]
        if 'callee' in ins:
            fname = self.prog.resolve_fn(mod, ins['callee'])
        else:
            cv = self.operand(ins['calleev'], mod, 'ptr', fr)
            if isinstance(cv, FnPtr):
                fname = cv.name
            elif isinstance(cv, T) and cv.op == 'uf' and cv.p == 'vslot':
                return self.models.virtual_unknown(self, cv, args, ins)
            elif isinstance(cv, T):
                return self.models.indirect_symbolic(self, cv, args, ins)
            else:
                raise ExecError('indirect call through %r in %s' % (cv, self.cur_fn))
        return self.call(fname, args, ins)

    # ------------------------------------------------------------------------------------------
    def step(self, ins, mod, fr):
        op = ins['op']
        st = self.st
        if op == 'call':
            return self.do_call(ins, mod, fr)
        if op == 'load':
            p = self.operand(ins['ptr'], mod, 'ptr', fr)
            return self.load(p, ins['size'], ins['t'])
        if op == 'store':
            p = self.operand(ins['ptr'], mod, 'ptr', fr)
            v = self.operand(ins['val'], mod, ins['vt'], fr)
            self.store(p, ins['size'], v)
            return None
        if op == 'getelementptr':
            b = self.operand(ins['base'], mod, 'ptr', fr)
            off = ins['off']
            for idx, scale in ins['var']:
                i = self.operand(idx, mod, None, fr)
                if isinstance(i, T):
                    if tm.isc(i):
                        i = int(i.p)
                    else:
                        if i.op == 'undef':
                            st.event('uninit-use', 'index', self.cur_fn)
                            raise ExecError('uninitialised GEP index in %s' % self.cur_fn)
                        if i.op == 'uf' and i.p == 'strlen' and scale == 1 and isinstance(b, Ptr) and isinstance(b.off, int):
                            # &buf[strlen(s)]: the position just behind a string copied without its terminator (see store)
                            return Ptr(b.rid, ('cstr-end', b.off + off, i.a[0]))
                        # symbolic index into a small array: case split over the elements of the region; anything else is out of range
                        reg = st.regions.get(b.rid) if isinstance(b, Ptr) else None
                        n_el = (reg.size - b.off - off) // scale if reg is not None and reg.size and scale else 0
                        if not (0 < n_el <= 64):
                            raise ExecError('symbolic GEP index in %s' % self.cur_fn)
                        chosen = None
                        for k_ in range(n_el):
                            if self.decide(tm.cmp('eq', i, tm.iconst(k_))):
                                chosen = k_
                                break
                        if chosen is None:
                            if not int_feasible(st.pc):
                                raise Infeasible('index path condition is unsatisfiable over the integers')
                            st.event('oob', 'array-index', 'symbolic index outside [0,%d)' % n_el, self.cur_fn)
                            raise ExecError('array index out of range in %s' % self.cur_fn)
                        i = chosen
                off += i * scale
            if not isinstance(b, Ptr):
                if isinstance(b, T) and b.op == 'undef':
                    st.event('uninit-use', 'address', self.cur_fn)
                raise ExecError('GEP on non-pointer %r in %s' % (b, self.cur_fn))
            return Ptr(b.rid, b.off + off)
        if op == 'alloca':
            n = self.operand(ins['count'], mod, None, fr)
            r = st.new_region('alloca', ins['size'] * n, '%s:%%%d' % (self.cur_fn, ins['id']))
            fr.allocas.append(r.rid)
            return Ptr(r.rid, 0)
        if op in ('fadd', 'fsub', 'fmul', 'fdiv'):
            a = self.fval(self.operand(ins['ops'][0], mod, ins['t'], fr))
            b = self.fval(self.operand(ins['ops'][1], mod, ins['t'], fr))
            return {'fadd': tm.add, 'fsub': tm.sub, 'fmul': tm.mul, 'fdiv': tm.div}[op](a, b)
        if op == 'fneg':
            return tm.neg(self.fval(self.operand(ins['ops'][0], mod, ins['t'], fr)))
        if op == 'fcmp':
            a = self.fval(self.operand(ins['ops'][0], mod, ins['ot'], fr))
            b = self.fval(self.operand(ins['ops'][1], mod, ins['ot'], fr))
            p = ins['pred']
            # ordered/unordered distinction is immaterial in the real model (no NaNs)
            m = {'oeq': 'eq', 'ueq': 'eq', 'one': 'ne', 'une': 'ne', 'olt': 'lt', 'ult': 'lt', 'ole': 'le', 'ule': 'le',
                 'ogt': 'gt', 'ugt': 'gt', 'oge': 'ge', 'uge': 'ge'}
            if p == 'ord':
                return tm.TRUE
            if p == 'uno':
                return tm.FALSE
            if p == 'true':
                return tm.TRUE
            if p == 'false':
                return tm.FALSE
            return tm.cmp(m[p], a, b)
        if op == 'icmp':
            return self.icmp(ins, mod, fr)
        if op in ('add', 'sub', 'mul', 'sdiv', 'udiv', 'srem', 'urem', 'and', 'or', 'xor', 'shl', 'lshr', 'ashr'):
            return self.intop(ins, mod, fr)
        if op in ('bitcast', 'addrspacecast'):
            return self.operand(ins['ops'][0], mod, ins.get('ft'), fr)
        if op in ('fpext', 'fptrunc'):
            v = self.fval(self.operand(ins['ops'][0], mod, ins['ft'], fr))
            return self.models.fpconv(self, op, ins['ft'], ins['t'], v)
        if op in ('sitofp', 'uitofp'):
            v = self.operand(ins['ops'][0], mod, ins['ft'], fr)
            if isinstance(v, int):
                if op == 'uitofp' and v < 0:
                    v += 1 << width(ins['ft'])
                return tm.const(v)
            if isinstance(v, T):
                if v.op == 'undef':
                    st.event('uninit-use', 'arith', self.cur_fn)
                    return tm.undef('conv', 'R')
                if v.sort == 'B':
                    return tm.ite(v, tm.ONE, tm.ZERO)
                return tm.mk('i2r', (v,), None, 'R') if not tm.isc(v) else tm.const(v.p)
            raise ExecError('sitofp of %r' % (v,))
        if op in ('fptosi', 'fptoui'):
            v = self.fval(self.operand(ins['ops'][0], mod, ins['ft'], fr))
            if tm.isc(v):
                q = v.p
                n = abs(q.numerator) // q.denominator
                return wrap(n if q >= 0 else -n, width(ins['t']))
            return tm.mk('r2i', (v,), None, 'I')
        if op in ('sext', 'zext', 'trunc'):
            v = self.operand(ins['ops'][0], mod, ins['ft'], fr)
            if isinstance(v, int):
                fw, tw = width(ins['ft']), width(ins['t'])
                if op == 'zext':
                    return wrap(v & ((1 << fw) - 1), tw)
                if op == 'sext':
                    return wrap(v, tw) if fw > 1 else (-1 if v & 1 else 0)
                return wrap(v, tw)
            if isinstance(v, T):
                if v.sort == 'B':
                    if op == 'zext':
                        return tm.ite(v, tm.iconst(1), tm.iconst(0))
                    if op == 'sext':
                        return tm.ite(v, tm.iconst(-1), tm.iconst(0))
                if op == 'trunc' and ins['t'] == 'i1':
                    return tm.cmp('ne', v, tm.iconst(0))
                return v     # symbolic integers are mathematical (no wrap); stated assumption
            if isinstance(v, Ptr):
                return v
            raise ExecError('%s of %r' % (op, v))
        if op == 'ptrtoint' or op == 'inttoptr':
            return self.operand(ins['ops'][0], mod, ins.get('ft'), fr)
        if op == 'select':
            c = self.operand(ins['ops'][0], mod, 'i1', fr)
            a = self.operand(ins['ops'][1], mod, ins['t'], fr)
            b = self.operand(ins['ops'][2], mod, ins['t'], fr)
            if isinstance(c, T):
                c = self.as_bool(c)
                if c is tm.TRUE:
                    return a
                if c is tm.FALSE:
                    return b
                if ins['t'] == 'i1':
                    ba = a if isinstance(a, T) else (tm.TRUE if a else tm.FALSE)
                    bb = b if isinstance(b, T) else (tm.TRUE if b else tm.FALSE)
                    ba, bb = self.as_bool(ba), self.as_bool(bb)
                    return tm.lor(tm.land(c, ba), tm.land(tm.lnot(c), bb))
                ta, tb = self.termify(a, ins['t']), self.termify(b, ins['t'])
                if ta is not None and tb is not None:
                    return tm.ite(c, ta, tb)
                return a if self.decide(c) else b
            return a if c else b
        if op == 'extractvalue':
            agg = self.operand(ins['ops'][0], mod, None, fr)
            for i in ins['idx']:
                agg = agg[i]
            return agg
        if op == 'insertvalue':
            agg = self.operand(ins['ops'][0], mod, None, fr)
            v = self.operand(ins['ops'][1], mod, None, fr)
            if not isinstance(agg, list):
                agg = {}
            else:
                agg = list(agg)
            agg = dict(enumerate(agg)) if isinstance(agg, list) else dict(agg)
            agg[ins['idx'][0]] = v
            return agg
        if op == 'landingpad':
            return {0: NULL, 1: 0}
        if op == 'freeze':
            return self.operand(ins['ops'][0], mod, ins['t'], fr)
        raise ExecError('unsupported instruction %s in %s' % (op, self.cur_fn))

    def termify(self, v, ty):
        if isinstance(v, T):
            return v
        if isinstance(v, int) and ty != 'ptr':
            return tm.iconst(v)
        return None

    def fval(self, v):
        if isinstance(v, T):
            if v.op == 'undef' and self.uninit_events:
                self.st.event('uninit-use', 'arith', self.cur_fn, v.p)
            return v
        if isinstance(v, int):
            # raw bits stored as integer then reloaded as FP are not modelled
            if v == 0:
                return tm.ZERO
            raise ExecError('integer bits used as FP value in %s' % self.cur_fn)
        raise ExecError('FP operand is %r in %s' % (v, self.cur_fn))

    def icmp(self, ins, mod, fr):
        a = self.operand(ins['ops'][0], mod, ins['ot'], fr)
        b = self.operand(ins['ops'][1], mod, ins['ot'], fr)
        p = ins['pred']
        if isinstance(a, Ptr) or isinstance(b, Ptr) or isinstance(a, FnPtr) or isinstance(b, FnPtr):
            if isinstance(a, Ptr) and isinstance(b, Ptr):
                if p == 'eq':
                    return 1 if a == b else 0
                if p == 'ne':
                    return 0 if a == b else 1
                if a.rid == b.rid:
                    return 1 if {'ult': a.off < b.off, 'ule': a.off <= b.off, 'ugt': a.off > b.off, 'uge': a.off >= b.off}[p] else 0
            if isinstance(a, T) or isinstance(b, T):
                t = a if isinstance(a, T) else b
                o = b if isinstance(a, T) else a
                r = self.models.ptr_compare(self, t, o)
                if p == 'eq':
                    return r
                if p == 'ne':
                    return tm.lnot(r)
            if p == 'eq':
                return 1 if a == b else 0
            if p == 'ne':
                return 0 if a == b else 1
            raise ExecError('pointer comparison %s of %r %r' % (p, a, b))
        if isinstance(a, int) and isinstance(b, int):
            w = width(ins['ot']) if ins['ot'].startswith('i') else 64
            ua, ub = a & ((1 << w) - 1), b & ((1 << w) - 1)
            r = {'eq': a == b, 'ne': a != b, 'slt': a < b, 'sle': a <= b, 'sgt': a > b, 'sge': a >= b,
                 'ult': ua < ub, 'ule': ua <= ub, 'ugt': ua > ub, 'uge': ua >= ub}[p]
            return 1 if r else 0
        ta = a if isinstance(a, T) else tm.iconst(a)
        tb = b if isinstance(b, T) else tm.iconst(b)
        if ta.sort == 'B' or tb.sort == 'B':
            # comparing i1 values
            ta = ta if ta.sort == 'B' else (tm.TRUE if a else tm.FALSE)
            tb = tb if tb.sort == 'B' else (tm.TRUE if b else tm.FALSE)
            if p == 'eq':
                return tm.lor(tm.land(ta, tb), tm.land(tm.lnot(ta), tm.lnot(tb)))
            if p == 'ne':
                return tm.lor(tm.land(ta, tm.lnot(tb)), tm.land(tm.lnot(ta), tb))
            raise ExecError('ordered compare of booleans')
        if ta.sort == 'P' or tb.sort == 'P':
            r = self.models.ptr_compare(self, ta, tb)
            return r if p == 'eq' else tm.lnot(r)
        m = {'eq': 'eq', 'ne': 'ne', 'slt': 'lt', 'sle': 'le', 'sgt': 'gt', 'sge': 'ge',
             'ult': 'lt', 'ule': 'le', 'ugt': 'gt', 'uge': 'ge'}
        if p[0] == 'u':
            if isinstance(b, int) and b >= 0 and ta.sort == 'I':
                # unsigned comparison of a (mathematical) integer with a non-negative constant: negative values wrap to huge ones
                nonneg = tm.cmp('ge', ta, tm.iconst(0))
                if p == 'ult':
                    return tm.land(nonneg, tm.cmp('lt', ta, tb))
                if p == 'ule':
                    return tm.land(nonneg, tm.cmp('le', ta, tb))
                if p == 'ugt':
                    return tm.lor(tm.lnot(nonneg), tm.cmp('gt', ta, tb))
                if p == 'uge':
                    return tm.lor(tm.lnot(nonneg), tm.cmp('ge', ta, tb))
            self.st.notes.append(('unsigned-compare-symbolic', self.cur_fn))
        return tm.cmp(m[p], ta, tb)

    def intop(self, ins, mod, fr):
        op = ins['op']
        a = self.operand(ins['ops'][0], mod, ins['t'], fr)
        b = self.operand(ins['ops'][1], mod, ins['t'], fr)
        w = width(ins['t'])
        if isinstance(a, int) and isinstance(b, int):
            ua, ub = a & ((1 << w) - 1), b & ((1 << w) - 1)
            if op == 'add':
                r = a + b
            elif op == 'sub':
                r = a - b
            elif op == 'mul':
                r = a * b
            elif op in ('sdiv', 'srem'):
                if b == 0:
                    self.st.event('int-ub', 'division by zero', self.cur_fn)
                    raise ExecError('division by zero')
                q = abs(a) // abs(b)
                if (a < 0) != (b < 0):
                    q = -q
                r = q if op == 'sdiv' else a - q * b
            elif op in ('udiv', 'urem'):
                if ub == 0:
                    self.st.event('int-ub', 'division by zero', self.cur_fn)
                    raise ExecError('division by zero')
                r = ua // ub if op == 'udiv' else ua % ub
            elif op == 'and':
                r = ua & ub
            elif op == 'or':
                r = ua | ub
            elif op == 'xor':
                r = ua ^ ub
            elif op == 'shl':
                if ub >= w:
                    self.st.event('int-ub', 'shift', self.cur_fn)
                r = ua << ub
            elif op == 'lshr':
                r = ua >> ub
            elif op == 'ashr':
                r = a >> ub
            if ins.get('nsw') and op in ('add', 'sub', 'mul') and not (-(1 << (w - 1)) <= r < (1 << (w - 1))):
                self.st.event('int-ub', 'signed overflow', self.cur_fn)
            return wrap(r, w)
        if isinstance(a, Ptr) or isinstance(b, Ptr):
            # pointer arithmetic through integers
            if op == 'sub' and isinstance(a, Ptr) and isinstance(b, Ptr) and a.rid == b.rid:
                return a.off - b.off
            if op == 'add' and isinstance(a, Ptr) and isinstance(b, int):
                return Ptr(a.rid, a.off + b)
            raise ExecError('integer op %s on pointer' % op)
        ta = a if isinstance(a, T) else tm.iconst(a)
        tb = b if isinstance(b, T) else tm.iconst(b)
        for x in (ta, tb):
            if x.op == 'undef' and self.uninit_events:
                self.st.event('uninit-use', 'arith', self.cur_fn, x.p)
        if ta.sort == 'B' or tb.sort == 'B':
            ba = ta if ta.sort == 'B' else (tm.TRUE if a else tm.FALSE)
            bb = tb if tb.sort == 'B' else (tm.TRUE if b else tm.FALSE)
            if op == 'and':
                return tm.land(ba, bb)
            if op == 'or':
                return tm.lor(ba, bb)
            if op == 'xor':
                if bb is tm.TRUE:
                    return tm.lnot(ba)
                if ba is tm.TRUE:
                    return tm.lnot(bb)
                return tm.lor(tm.land(ba, tm.lnot(bb)), tm.land(tm.lnot(ba), bb))
            raise ExecError('boolean op %s' % op)
        if op == 'add':
            return tm.add(ta, tb)
        if op == 'sub':
            return tm.sub(ta, tb)
        if op == 'mul':
            return tm.mul(ta, tb)
        return tm.mk('i' + op, (ta, tb), None, 'I')

    # ------------------------------------------------------------------------------------------
    # path exploration
    def explore(self, st0, thunk, max_paths=256, default=True, limit=None):
        """thunk(ex) runs the code under test on ex.st (a clone of st0) and returns a value.
        Returns list of dict(pc, ret, st, terminal, error)."""
        out = []
        work = [[]]
        while work:
            sched = work.pop()
            self.st = st0.clone()
            self.schedule = sched
            self.default_decision = default
            self.decisions = []
            self.pending = []
            self.depth = 0
            self.steps = 0
            res = dict(ret=None, terminal=None, error=None)
            try:
                res['ret'] = thunk(self)
            except Terminal as t:
                res['terminal'] = (t.kind, t.val)
            except Infeasible:
                work.extend(self.pending)
                continue
            except ExecError as e:
                res['error'] = e
            res['st'] = self.st
            res['pc'] = list(self.st.pc)
            out.append(res)
            if limit is not None and len(out) >= limit:
                self.default_decision = True
                return out
            work.extend(self.pending)
            if len(out) + len(work) > max_paths:
                raise UnwindBound('more than %d paths' % max_paths)
        self.default_decision = True
        return out


def pc_term(pc):
    return tm.land(*[(c if b else tm.lnot(c)) for c, b in pc])


def merge_paths(paths, key='ret'):
    """ite-merge of the values of all paths (they partition the input space)"""
    vals = [(pc_term(p['pc']), p[key]) for p in paths]
    r = vals[-1][1]
    for c, v in reversed(vals[:-1]):
        r = tm.ite(c, v, r)
    return r
