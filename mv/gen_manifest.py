"""Generates /verif/MANIFEST.json from the table below (kept in one place so it stays valid)."""
import json, os
HERE = os.path.dirname(os.path.abspath(__file__))
VERIF = os.path.dirname(HERE)

CHECKS = {}
NA = {}


def claim(pid, category, text, note, technique, design_ref):
    CHECKS[pid] = dict(
        property_id=pid,
        quick_cmd='./check %s --tier quick' % pid,
        thorough_cmd='./check %s --tier thorough' % pid,
        evidence_file='evidence/%s.json' % pid,
        replay_cmd_template='cat {path}',
        engine='engine-a' if pid != 'C13' else 'cbmc+engine-a',
        level_claimed=dict(category=category, text=text, design_ref=design_ref),
        level_note=note,
        technique=technique,
    )


FORMULA_NOTE = ('Evaluators are resolved as the API\'s virtual call resolves them (vtable slot of the base declaration). '
                'The long double instantiation of the same evaluators is additionally checked for type purity (no double-precision intermediate or double-rounded constant; perturbation model of narrowing as in C09). '
                'Members that an evaluator of the class stores to and does not recompute (FP caches, bool/int "already computed" flags) are arbitrary remembered values. The registration executed on the IR must bind every registered parameter name to a member of its own (parameter-binding obligation; replay assigns all names in both orders and reads them back). '
                'An obligation the solver does not decide within the budget is printed UNDECIDED (never counted as held); before that its replay is run at concrete '
                'admissible points found by sampling under the obligation\'s path conditions (around the defaults, then with mirrored ranges for parameters whose sign no assumption fixes), and a mismatch of the real library there is reported as a violation. '
                'Real-arithmetic model of floating point (exact +,-,*,/ and exact libm; rounding/overflow/libm accuracy outside the claim); '
                'sin/cos abstracted to points on the unit circle, other transcendental atoms opaque with sound axioms; '
                'trusted: clang-14 lowering, irdump+Engine A (validated each run against the g++ build through the public API), '
                'the reference operators in /verif/spec, z3 4.8.12.')

claim('C01', 'other',
      'Solver-based symbolic checking: eval_q_t / eval_exact_t of all 12 heat solutions (double and long double) are executed symbolically from the clang IR '
      'with every parameter and coordinate a free real; z3 (nlsat) decides source == rho cp(T) T_t - div(k(T) grad T) applied by symbolic differentiation to the documented T. '
      'Unbounded in the values; loop-free code so no unwinding bound.',
      FORMULA_NOTE, 'symbolic execution of LLVM IR + SMT (z3 qfnra-nlsat) identity checking against a differentiated reference', 'DESIGN.md §4 C01')

claim('C02', 'other',
      'Solver-based symbolic checking: every eval_q_* and eval_exact_* of the 8 Euler-family solutions (both scalar types) executed symbolically from the clang IR; '
      'z3 (nlsat) decides (i) exact fields == documented sine/cosine forms and (ii) each source == conservative Euler residual (Cartesian / cylindrical with 1/r terms) '
      'obtained by symbolic differentiation of the library\'s own exact-field terms. Unbounded in values; loop-free.',
      FORMULA_NOTE + ' Admissibility assumed: L != 0, Gamma != 1, rho > 0, r > 0.', 'symbolic execution of LLVM IR + SMT (z3 qfnra-nlsat) identity checking', 'DESIGN.md §4 C02')
claim('C03', 'other',
      'As C02 with the Newtonian stress (Stokes hypothesis) and Fourier flux for navierstokes_2d/3d_compressible, axisymmetric_navierstokes_compressible and axi_cns_transient. '
      'The six momentum/energy sources of the two axisymmetric solutions are genuine known findings (deficient stress tensor); they are additionally checked against the as-built operator so any further change is still detected. '
      'The power-law solution is covered by c03_powerlaw (see level_note).',
      FORMULA_NOTE + ' Admissibility: L != 0, Gamma != 1, R != 0, rho > 0, r > 0. navierstokes_4d_compressible_powerlaw: see evidence family powerlaw.', 'symbolic execution of LLVM IR + SMT (z3 qfnra-nlsat) identity checking', 'DESIGN.md §4 C03')
claim('C04', 'other',
      'laplace_2d: eval_q_f == Laplacian(eval_exact_phi); burgers_equation: eval_q_u/v(x,y,t) == u_t+(uu)_x+(uv)_y, v_t+(uv)_x+(vv)_y of eval_exact_u/v(x,y,t); 2-argument exact fields == 3-argument ones with the temporal amplitude 0; all decided by z3 over symbolic parameters and points, both scalar types.',
      FORMULA_NOTE, 'symbolic execution of LLVM IR + SMT identity checking', 'DESIGN.md §4 C04')
claim('C20', 'other',
      'Both sides are library terms extracted from the IR; parameters of the larger model are substituted by 0 and z3 decides equality with the smaller model\'s term over the shared parameter symbols '
      '(3D->2D Euler/NS at arbitrary z, mu=k=0 NS->Euler, temporal amplitudes 0 transient->steady Euler, heat unsteady->steady and variable->constant). '
      'Every reduction is additionally evaluated on the real library through two handles of one process at one generic parameter set (API-level validation, every run).',
      FORMULA_NOTE, 'symbolic execution of LLVM IR + parameter substitution + SMT equality', 'DESIGN.md §4 C20')

claim('C05', 'other',
      'rans_sa: eval_q_u/eval_q_v == SA channel operator (f_v1, f_v2, modified-SA production limiter, r=min(.,10), g, f_w with the 1/6 power) applied by symbolic differentiation to eval_exact_u/v, decided path by path (library branches resolve the reference ite) with cut-point lemmas. '
      'fans_sa_transient_free_shear: all five 3-argument sources against the FANS-SA operator on the documented transient fields, 2-argument sources == 3-argument at t=0, 2-argument exact fields == t=0 sections; the momentum and energy sources are KNOWN FINDINGS (f_v1 not differentiated; rho cv dT/dt missing) and are held to the as-built operator. '
      'fans_sa_steady_wall_bounded: update() executed symbolically; continuity, both momentum sources and the nu_sa source (both branches of the negative-S limiter, wall destruction with f_w) == FANS-SA operator on the exact fields (quick and thorough); '
      'the energy source is attempted in the thorough tier only: its convection and y-direction heat-flux groups are proved, the x-direction heat-flux and viscous-work groups do not finish (UNDECIDED, stated).',
      FORMULA_NOTE + ' Transcendental atoms (log, exp, pow(.,-1/7), pow(.,1/6), sqrt, asin) are opaque with sound axioms. The wall-bounded temperature field of the operator is the library\'s exact T, proved equal to p/(rho R) by its own obligation. The wall-bounded energy identity is outside the claim where printed UNDECIDED.',
      'symbolic execution of LLVM IR + symbolic differentiation + SMT (z3 nlsat) with path-wise/select-wise case resolution, proved cut-point lemmas and additive splitting into separately proved groups of summands', 'DESIGN.md §4 C05, §11')
claim('C06', 'other',
      'euler_chem_1d: the four sources == two-species (N,N2) thermally-perfect reacting Euler operator on the exact fields with the user callback K_eq an UNINTERPRETED function (so every positive pure callback at once): species sources, their sum == d(rho u)/dx for every K_eq, '
      'momentum (p = R_N T (rho_N + rho_N2/2)) and energy (5/2, 7/4 translational-rotational, N2 vibrational, formation enthalpies); the callback is invoked exactly once, on the exact temperature term.',
      FORMULA_NOTE + ' pow(T,eta) and exp atoms opaque with axioms; admissibility T>0, rho_s>0, M_N,L,R != 0, K_eq>0.', 'symbolic execution of LLVM IR with an uninterpreted callback + SMT identity checking', 'DESIGN.md §4 C06')

claim('C08', 'other',
      'sod_1d: (a) rtbis with func UNINTERPRETED, unrolled 3 (5 thorough) bisection steps and case-split on every sign: at every return the result is the lower end of a bracket [r, r+dx] with func(r) <= 0 <= func(r+dx) and |dx| < xacc or |func(mid)| < thresh; '
      '(b) with p_m a symbol: func == (shock-side - rarefaction-side velocity)/c_r (also for func as it evaluates in the state of the rtbis call site of EACH evaluator), Rankine-Hugoniot mass and momentum jumps, every evaluator path returns the value of the wave region its conditions select with front speeds -c_l, -v_t, v_m, v_s, fronts ordered, density/velocity continuous across the fan (Gamma = 7/5; 5 rational values thorough). '
      'Sod members that the evaluators do not recompute are arbitrary remembered values. Replay for Sod: both evaluators on an x/t grid over every wave region against the exact Riemann solution. cp_normal: prior/posterior == normalised normal densities with the conjugate mean/variance for data vectors of length 1..3 (6) with symbolic contents, posterior ~ likelihood*prior (exponent derivatives), loglikelihood == exponent of the likelihood, mean/variance evaluators, central moments k=0..20.',
      FORMULA_NOTE + ' Sod states are the library\'s hard-coded (1,1) / (1/8,1/8); fractional powers are opaque atoms with v^q = base^p axioms, so the relation list is claimed for the listed rational Gamma values; bisection is bounded by the stated unrolling.',
      'symbolic execution of LLVM IR with uninterpreted func / summarised rtbis + SMT (z3 nlsat) identities and inequalities', 'DESIGN.md §4 C08')

claim('C09', 'other',
      'Solver-decidable part of the accuracy property, on the long double instantiation of every evaluator of the solutions of C01-C08: (1) every FP constant is the 64-bit rounding of a simple rational (a double-rounded constant fails), '
      '(2) perturbation model of type purity: each value narrowed to double is multiplied by (1+delta) and z3 decides whether the result depends on delta, (3) pi/PI initialisers call acosl for long double, '
      '(4) definedness in the real model: admissibility => every denominator of the Euler/Navier-Stokes/heat/Burgers/SA evaluator families is non-zero, '
      '(5) no DBL_EPSILON-derived tolerance or iteration threshold in the long double slice, and the iteration cap passed at each rtbis call site of the Sod evaluators lets the bracket shrink below the tolerance passed with it (width/2^cap < tolerance in long double). Flagged items are confirmed against a 50-digit evaluation (error > 2^-56 of the scale) before being reported. '
      'The formula layer of both instantiations is C01-C08.',
      'NOT decided and outside the claim: the quantitative bound (small multiple of unit roundoff) for the compiled arithmetic and glibc libm -- no solver here has a theory of binary floating point with sin/cos/pow/exp; overflow; effects of fast-math style compiler flags (the encoding uses -ffp-contract=off, no fast-math, like the -O0 baseline).',
      'symbolic execution of LLVM IR with a perturbation model of narrowing + type-relative constant analysis + SMT definedness queries', 'DESIGN.md §4 C09')

STRUCT_NOTE = ('Contract models of std::string/map/vector/ostream (libstdc++ internals not analysed; vector iterators are pointers, <algorithm>/<numeric>/<functional> are defined stub templates executed from the IR; a std facility without a model ends the check with INFRASTRUCTURE, exit 2, never with a verdict); allocation succeeds; masa_map summarised by its C13 contract inside masa_init; '
               'trusted: clang-14 lowering, irdump+Engine A, z3 for path-condition feasibility; every reported counterexample is replayed on a g++ -O0 build through the public API.')
claim('C07', 'other',
      'MASA::masa_eval_grad_*<Scalar> executed symbolically from the IR after masa_init (registry + virtual dispatch included) with the direction index a symbolic integer: '
      'for each valid i the result equals the symbolic derivative of the masa_eval_exact_* term (z3), for every other integer it is -1 and the error path prints; euler_1d/2d/3d, navierstokes_2d/3d_compressible, both scalar types. '
      'API->virtual forwarding of all gradient templates is decided in C15 (shared).',
      FORMULA_NOTE + ' Power-law gradients: see evidence (family powerlaw) or stated as not covered.', 'symbolic execution of LLVM IR with symbolic integer index + SMT identity checking', 'DESIGN.md §4 C07')
claim('C11', 'other',
      'One-step inductive checking of the parameter store from the post-masa_init state with ALL registered parameters symbolic: masa_set_param/get_param with a SYMBOLIC name string (covers every registered name and every unknown name), '
      'masa_init_param (scalar defaults AND vector parameters restored to their registered defaults), masa_purge_default_param, masa_sanity_check (one parameter symbolic at a time, z3 decides marker => nonzero and far-from-marker => 0; each vector parameter emptied in turn => reported), set_vec/get_vec for every length 0..4 (8 thorough) with symbolic contents and a length change; every catalogue class except the two fixtures, both scalar types.',
      STRUCT_NOTE, 'symbolic execution of LLVM IR over container contract models; path-condition feasibility by z3', 'DESIGN.md §4 C11')
claim('C14', 'other',
      'Finite catalogue enumerated exhaustively by executing get_list_mms/masa_init/masa_printid/masa_get_name/masa_get_dimension/masa_init_param/masa_sanity_check on the IR for every entry and both scalar types; '
      'documented evaluators (spec/capabilities.json): vtable slot overridden + no path through the API reaches a stub for symbolic arguments; interior-point finiteness with defaults is run on the real library for every documented evaluator and every valid direction index, and masa_init of an existing handle with its own solution after a purge must give a sane default instance (finite statement; a crash of that run is a violation).',
      STRUCT_NOTE + ' Capability and dimension tables are frozen specifications in /verif/spec.', 'symbolic execution of LLVM IR (finite exhaustive catalogue) + concrete run of the real library for the interior-point clause', 'DESIGN.md §4 C14')
claim('C15', 'other',
      'Every (catalogue solution, masa_eval_* API template) pair outside the capability table (about 8400 pairs, both scalar types) executed with symbolic arguments: all paths (direction index symbolic) return the constant -1.33, print one MASA ERROR line, store nothing, do not terminate. '
      'Forwarding: every API template executed against a synthetic vtable of uninterpreted slots reaches the slot of the virtual prescribed by the naming rule with the arguments in order (class-independent).',
      STRUCT_NOTE, 'symbolic execution of LLVM IR, exhaustive over (class, API) pairs; uninterpreted vtable slots for forwarding', 'DESIGN.md §4 C15')

claim('C10', 'other',
      'Every evaluator override of every catalogue class (both scalar types) executed from the object state in which registered parameters are named symbols and every member that any method of the class writes is an independent fresh symbol: '
      'the merged result may mention only parameters/vector contents/arguments (else a two-copy z3 query decides equality), the final value of every registered scalar and vector parameter equals its initial symbol, and no store leaves the object. '
      'Function-local statics are modelled (first-call initialisation forks; an initialised static holds an arbitrary earlier value), so a value remembered across calls or handles shows as a dependence. '
      'With the registry isolation of C12 this gives history independence over any interleaving. Replays: evaluation order (also after the same evaluator at four further points), parameter change between two evaluations at one point, process order (first evaluation with other parameters); when the two-copy query times out a point is searched under the path condition of the path that mentions the stale member and the replay runs there.',
      STRUCT_NOTE + ' Bit-for-bit reproducibility assumes every IR operation is a deterministic function of its operand bits (fixed rounding mode).', 'symbolic execution of LLVM IR from an arbitrary object state (frame + self-composition)', 'DESIGN.md §4 C10')
claim('C12', 'other',
      'One API step from a registry state with K (2 quick, 3 thorough) entries whose handle strings are pairwise-distinct SYMBOLS mapped to live objects built by the real masa_init on the IR: '
      'masa_select_mms(H) (a normal return without a matched handle is a violation), masa_init(H,name) (fresh default instance mapped at H and selected, nothing else written), masa_set_param (stores only inside the selected object), masa_list_mms/get_name, and independence of the double and long double registries (no <Scalar> operation writes the other registry, and observers -- get_name, get_dimension, sanity_check, get_param, list_mms, an evaluator -- report the same with and without a solution selected in the other registry; the same comparison and the no-store condition are swept over EVERY MASA::masa_*<Scalar> entry point found in the IR with generic symbolic arguments, replayed in two processes); H symbolic covers every registered and every new handle. '
      'Bounded API sequences (depth 4 quick, 5 thorough) of init/select/set_param/get_param over 2 handles from the empty registry are explored against a reference registry (state outside the K-entry shape, e.g. the first init).',
      STRUCT_NOTE + ' K bounds the symbolic shape only; std::map is modelled for any K.', 'symbolic execution of LLVM IR over a symbolic finite-map registry (inductive one-step)', 'DESIGN.md §4 C12')
claim('C13', 'model_checking',
      'CBMC 6.11 (C++ front end) on the VERBATIM src/masa_map.cpp with a bounded std::string stub: for every string of length <= 6 (8 thorough) over all non-NUL byte values masa_map(s) equals the reference filter(lowercase(s), c not in {-,blank}); --unwinding-assertions; WITNESS twin must fail. '
      'Engine A: masa_init(H, NAME) with NAME symbolic resolves to the first catalogue entry equal to normalise(NAME), no match is fatal with the registry untouched (nothing registered under H), the handle key is used verbatim. '
      'masa_map.cpp is analysed by CBMC only; inside Engine A masa_map is replaced by its contract. The assumption behind the length bound is checked: every integer constant above the bound in the clang IR of the unit is taken as a possible length threshold and the real library is run on valid names decorated to the lengths around it and to 80 characters; thorough: CBMC also on two concrete long inputs.',
      'Bounded: strings longer than the bound are outside the claim. Trusted: CBMC C++ front end with -DSWIG, the stub headers in /verif/cbmc/stub (bounded std::string with the common member functions, <algorithm>, <cctype> of the C locale), unnamed namespaces of the unit given names textually before CBMC reads it (lookup-preserving); Engine A contract models.', 'CBMC bounded model checking of the real translation unit + symbolic execution of masa_init', 'DESIGN.md §4 C13')
claim('C16', 'other',
      'In the default (exit) build and in a -DMASA_EXCEPTIONS -fexceptions build of the IR: every solution-dependent API template (130 per scalar type) called with symbolic arguments before any masa_init of its scalar type (both registries empty, and only the other registry initialised), masa_select_mms of an unknown (symbolic) handle and masa_init of an unknown (symbolic) solution name from a K=2 symbolic registry: '
      'the only path prints MASA FATAL ERROR, then reaches exit(1) / throw of int 1, with no store into pre-existing memory and the registry snapshot unchanged; '
      'in the exception build a second step from the state the caught failure leaves: the same failing call fails the same way again and every registered handle can still be selected.',
      STRUCT_NOTE + ' Exception specifications are modelled: a throw unwinding through a landing pad that enforces one (filter -> __cxa_call_unexpected, __clang_call_terminate) is process termination, not a catchable int. Other cleanup code on unwind edges is assumed not to touch the registry.', 'symbolic execution of LLVM IR in two build configurations (event-trace and store-set checking)', 'DESIGN.md §4 C16')
claim('C17', 'other',
      'Every extern "C" definition of cmasa.cpp executed with symbolic arguments against UNINTERPRETED MASA::masa_*<double> templates: exactly one call of the template the naming rule prescribes with the arguments in order, the result (value or status) is the callee\'s, '
      'masa_get_name leaves the callee\'s string in the caller buffer, masa_set_array/masa_get_array move length and contents for every length 0..4 (8 thorough) with the caller\'s *n on entry to masa_get_array an arbitrary (symbolic) integer; wrappers returning a constant are compared with the real template on every catalogue class. A wrapper definition that clang rejects as conflicting with its prototype in masa.h (g++ only warns) is reported as a wrapper C callers cannot reach.',
      STRUCT_NOTE, 'symbolic execution of LLVM IR with uninterpreted callees (translation-validation style term equality)', 'DESIGN.md §4 C17')
claim('C18', 'other',
      'z3 bit-vector model of the System V AMD64 argument/result slots: for each of the 92 bind(C,name=...) interfaces of masa.f90 the caller writes its arguments per the Fortran declaration and the callee reads per the C definition (IR signature cross-checked with the source signature); unsat = every parameter observes the intended argument of the same kind and the result register class matches. '
      'Header: every extern declaration of masa.h.in equals its definition (a definition clang rejects as conflicting with the declaration is that mismatch); masa.i wraps exactly masa.h. A deliberately wrong binding is the witness.',
      'Fortran is parsed, not compiled (no Fortran front end in the image): an interface outside the parsed subset fails the run. A SUBROUTINE bound to an int-returning C function is accepted (status discarded, register compatible).', 'SMT (QF_BV) model of the calling convention per binding', 'DESIGN.md §4 C18')
claim('C19', 'other',
      'Engine A memory model (undef tracking, region lifetimes, container index checks, heap ownership) over: static initialisation and all 37 constructors, masa_init from a symbolic registry (allocations balance to exactly one live instance per handle, replaced instance freed), the failing calls (unknown solution name on a new or existing handle, unknown handle: '
      'the registry holds only live instances at the fatal error and the static destructor run by exit(1) releases each exactly once), every solution-dependent API function called before any masa_init (no null or uninitialised access on the way to the fatal error), printid/list/display, the registry destructor, '
      'every documented evaluator of every class with symbolic arguments and parameters (no read of a never-written member), vector parameters of every length 0..4 and every combination of lengths 0..2 followed by every evaluator, a refused set/get of a scalar or vector parameter under an unregistered name followed by every observer of the store (display, sanity check, get, purge, init_param), the C array interface of length 0..4 through the real callee. Findings replay under valgrind.',
      STRUCT_NOTE + ' UB classes are those the IR shows (see evidence assumptions); libstdc++ internals and allocation failure are outside.', 'symbolic execution of LLVM IR with an explicit memory/ownership model', 'DESIGN.md §4 C19')

ALL = ['C%02d' % i for i in range(1, 21)]


def main():
    for pid in ALL:
        if pid not in CHECKS and pid not in NA:
            NA[pid] = 'check not built yet in this round (planned: see DESIGN.md §4 %s); no claim is made' % pid
    m = dict(
        version=1,
        setup_cmd='python3-vt mv/build.py --setup',
        hooks=dict(guard='MASA_VERIF', enable='no hooks are needed: checks read /repo sources as they are (clang IR) and replay through the public API',
                   baseline_off_cmd='cd /repo && make -k check', source_commits=[], add_only=True),
        engines=[
            dict(name='engine-a', path='mv/', serves_properties=[p for p in ALL if p in CHECKS and p != 'C13'],
                 kind_free_text='own symbolic executor over clang-14 LLVM IR (irdump JSON) with SMT back end (z3 4.8.12), replay against a g++ -O0 build of /repo'),
            dict(name='cbmc', path='cbmc/', serves_properties=['C13'] if 'C13' in CHECKS else [],
                 kind_free_text='CBMC 6.11 C++ front end on the verbatim src/masa_map.cpp with a bounded std::string stub'),
        ],
        checks=[CHECKS[p] for p in ALL if p in CHECKS],
        not_applicable=[dict(property_id=p, reason=NA[p]) for p in ALL if p in NA],
        notes='Exit codes: 0 ok / known finding, 1 VIOLATION, 2 infrastructure problem (never a verdict). UNDECIDED obligations are listed in the evidence and are not counted as discharged.',
    )
    with open(os.path.join(VERIF, 'MANIFEST.json'), 'w') as fh:
        json.dump(m, fh, indent=1)


if __name__ == '__main__':
    main()
