"""Concrete replay against a g++ -O0 build of /repo's working tree (DESIGN.md §3.6) and
translator validation (§3.7).  Concrete runs never establish a property; they confirm
counterexamples and validate the IR->term translation."""
import os
import subprocess
import shutil
import json
from fractions import Fraction
import mpmath
import build
import terms as tm

mp = mpmath.mp.clone()
mp.dps = 50

SCALAR_CXX = {'double': 'double', 'long double': 'long double'}


class Lib(object):
    _inst = None
    _built = {}
    _count = {}

    @classmethod
    def get(cls, scratch):
        if cls._inst is None:
            cls._inst = Lib(scratch)
        return cls._inst

    def __init__(self, scratch, extra=()):
        self.dir = os.path.join(scratch, 'lib' + ''.join(extra).replace('-', '_'))
        os.makedirs(self.dir, exist_ok=True)
        if self.dir not in Lib._built:          # one build per variant and process, however many replays construct it
            Lib._built[self.dir] = build.build_lib(self.dir, extra)
        self.objs = Lib._built[self.dir]
        self.extra = list(extra)
        Lib._count[self.dir] = Lib._count.get(self.dir, 0)
        self.n = 0

    def run(self, src, stdin='', lang='c++', timeout=120, keep=None, env=None, wrapper=()):
        Lib._count[self.dir] = Lib._count.get(self.dir, 0) + 1
        self.n = Lib._count[self.dir]
        ext = '.cpp' if lang == 'c++' else '.c'
        path = os.path.join(self.dir, 'drv%d%s' % (self.n, ext))
        exe = os.path.join(self.dir, 'drv%d' % self.n)
        with open(path, 'w') as fh:
            fh.write(src)
        if lang == 'c++':
            cmd = ['g++', '-O0', '-w', '-I' + build.REPO, '-I' + os.path.join(build.REPO, 'src'), path] + self.objs + self.extra + ['-o', exe, '-lm']
        else:
            o = exe + '.o'
            subprocess.check_call(['gcc', '-O0', '-w', '-I' + build.REPO, '-I' + os.path.join(build.REPO, 'src'), '-c', path, '-o', o])
            cmd = ['g++', o] + self.objs + self.extra + ['-o', exe, '-lm']
        p = subprocess.run(cmd, stderr=subprocess.PIPE, universal_newlines=True)
        if p.returncode != 0:
            raise RuntimeError('driver build failed: ' + p.stderr[-3000:])
        e = dict(os.environ)
        if env:
            e.update(env)
        p = subprocess.run(list(wrapper) + [exe], input=stdin, stdout=subprocess.PIPE, stderr=subprocess.PIPE, universal_newlines=True, timeout=timeout, env=e)
        if keep:
            shutil.copy(path, keep)
        os.unlink(exe)
        return p.returncode, p.stdout, p.stderr


def lit(v, scalar):
    """C++ literal of a Fraction/number in the given scalar type"""
    if isinstance(v, Fraction):
        if v.denominator == 1:
            s = '%d.0' % v.numerator
        else:
            s = '(%d.0%s/%d.0%s)' % (v.numerator, 'L' if scalar == 'long double' else '', v.denominator, 'L' if scalar == 'long double' else '')
            return s
    else:
        s = repr(float(v))
    return s + ('L' if scalar == 'long double' else '')


def driver_source(steps):
    """steps: list of tuples
       ('init', scalar, handle, solution) ('set', scalar, name, Fraction) ('eval', scalar, api, [args as Fraction or int], tag)
       ('raw', code)"""
    out = ['#include <masa.h>', '#include <cstdio>', '#include <string>', '#include <vector>', 'using namespace MASA;',
           'int main(){']
    for s in steps:
        if s[0] == 'init':
            out.append('  masa_init<%s>("%s","%s");' % (SCALAR_CXX[s[1]], s[2], s[3]))
        elif s[0] == 'set':
            out.append('  masa_set_param<%s>("%s",%s);' % (SCALAR_CXX[s[1]], s[2], lit(s[3], s[1])))
        elif s[0] == 'eval':
            args = ','.join(str(a) if isinstance(a, int) else '(%s)%s' % (SCALAR_CXX[s[1]], lit(a, s[1])) for a in s[3])
            out.append('  printf("R %s %%.25Lg\\n",(long double)%s<%s>(%s)); fflush(stdout);' % (s[4], s[2], SCALAR_CXX[s[1]], args))
        elif s[0] == 'raw':
            out.append('  ' + s[1])
    out.append('  return 0;}')
    return '\n'.join(out) + '\n'


def parse_results(stdout):
    res = {}
    for line in stdout.split('\n'):
        if line.startswith('R '):
            _, tag, val = line.split()
            try:
                res[tag] = mp.mpf(val)
            except Exception:
                res[tag] = mp.nan
    return res


def eval_term(term, env):
    """env: {symbol name: Fraction}"""
    e = {k: mp.mpf(v.numerator) / mp.mpf(v.denominator) for k, v in env.items()}
    return tm.evalf([term], e, mp)[0]
