"""SMT-LIB2 encoding of term DAGs (SSA form, DESIGN.md §3.3) and solver driver."""
import os
import re
import subprocess
import time
import hashlib
from fractions import Fraction
import terms as tm
from terms import T

Z3 = '/usr/bin/z3'
NRA_TACTIC = '(check-sat-using (then simplify solve-eqs qfnra-nlsat))'


def qname(s):
    return '|' + s.replace('|', '!').replace('\\', '!') + '|'


def num(q):
    if q.denominator == 1:
        return '%d.0' % q.numerator if q >= 0 else '(- %d.0)' % (-q.numerator)
    if q >= 0:
        return '(/ %d.0 %d.0)' % (q.numerator, q.denominator)
    return '(- (/ %d.0 %d.0))' % (-q.numerator, q.denominator)


class Encoder(object):
    """Real-arithmetic encoding with sin/cos circle abstraction and opaque atoms + axioms."""

    def __init__(self, pi_bounds=True):
        self.decls = []
        self.asserts = []
        self.expr = {}            # node id -> smt expression string
        self.angles = []          # list of (rep term, svar, cvar)
        self.atoms = {}           # fn name -> list of (args terms, var)
        self.ufs = {}             # uf name -> list of (args, var)
        self.nvars = 0
        self.natoms = 0
        self.side_nonzero = []    # denominators asserted nonzero (domain of the expression)
        self.declared = set()
        self.nonzero_done = set()
        self.invs = []
        self.info = dict(angles=0, atoms=0, nodes=0, divs=0)
        if pi_bounds:
            self.declare(qname('PI'), 'Real')
            self.asserts.append('(> |PI| 3.0)')
            self.asserts.append('(< |PI| 4.0)')

    def declare(self, name, sort):
        if name not in self.declared:
            self.declared.add(name)
            self.decls.append('(declare-const %s %s)' % (name, sort))

    def fresh(self, prefix, sort='Real'):
        self.nvars += 1
        n = '%s%d' % (prefix, self.nvars)
        self.declare(n, sort)
        return n

    # ------------------------------------------------------------------------------------------
    def angle_vars(self, theta):
        """-> (svar, cvar, sign) with sin(theta) = sign*svar, cos(theta) = cvar"""
        for rep, s, c in self.angles:
            if rep is theta:
                return s, c, 1
        for rep, s, c in self.angles:
            q = tm.rat_ratio(theta, rep)
            if q == 1:
                return s, c, 1
            if q == -1:
                return s, c, -1
        s = self.fresh('s')
        c = self.fresh('c')
        self.asserts.append('(= (+ (* %s %s) (* %s %s)) 1.0)' % (s, s, c, c))
        self.angles.append((theta, s, c))
        self.info['angles'] += 1
        return s, c, 1

    def atom_var(self, f, args):
        lst = self.atoms.setdefault(f, [])
        for a2, v in lst:
            if all(x is y for x, y in zip(args, a2)):
                return v
        for a2, v in lst:
            if all((x is y) or tm.rat_equal(x, y) for x, y in zip(args, a2)):
                return v
        v = self.fresh('a_' + f + '_')
        # congruence (solver-based Ackermannisation): equal arguments => equal values, for atoms not merged syntactically
        if len(lst) <= 12 and all(a.id in self.expr for a in args):
            for a2, v2 in lst:
                if all(x.id in self.expr for x in a2):
                    eqs = ' '.join('(= %s %s)' % (self.expr[x.id], self.expr[y.id]) for x, y in zip(args, a2))
                    self.asserts.append('(=> (and true %s) (= %s %s))' % (eqs, v, v2))
        lst.append((args, v))
        self.info['atoms'] += 1
        return v

    def inv_expr(self, b):
        """SMT expression for 1/b: product of reciprocal variables of the atomic factors of b"""
        if tm.isc(b):
            return num(1 / b.p)
        if b.op == 'mul':
            return '(* %s %s)' % (self.inv_expr(b.a[0]), self.inv_expr(b.a[1]))
        if b.op == 'neg':
            return '(- %s)' % self.inv_expr(b.a[0])
        if b.op == 'div':
            return '(* %s %s)' % (self.expr[b.a[1].id], self.inv_expr(b.a[0]))
        for rep, v in self.invs:
            if rep is b:
                return v
        for rep, v in self.invs:
            q = tm.rat_ratio(b, rep, cap=300)
            if q is not None:
                return '(* %s %s)' % (num(1 / q), v)
        v = self.fresh('inv')
        self.invs.append((b, v))
        self.asserts.append('(= (* %s %s) 1.0)' % (self.expr[b.id], v))
        self.side_nonzero.append(b)
        return v

    # ------------------------------------------------------------------------------------------
    def enc(self, root):
        for t in tm.topo([root]):
            if t.id in self.expr:
                continue
            self.expr[t.id] = self._enc(t)
        return self.expr[root.id]

    def _def(self, t, rhs):
        n = 'n%d' % t.id
        self.declare(n, 'Real')
        self.asserts.append('(= %s %s)' % (n, rhs))
        self.info['nodes'] += 1
        return n

    def _enc(self, t):
        op = t.op
        e = self.expr
        a = t.a
        if op == 'c':
            return num(t.p)
        if op == 'sym':
            n = qname(t.p)
            self.declare(n, 'Bool' if t.sort == 'B' else 'Real')
            return n
        if op == 'undef':
            n = qname('undef:' + t.p)
            self.declare(n, 'Bool' if t.sort == 'B' else 'Real')
            return n
        if op == 'str':
            n = qname('strlit:' + t.p)
            self.declare(n, 'Real')
            return n
        if op == 'add':
            return self._def(t, '(+ %s %s)' % (e[a[0].id], e[a[1].id]))
        if op == 'sub':
            return self._def(t, '(- %s %s)' % (e[a[0].id], e[a[1].id]))
        if op == 'mul':
            return self._def(t, '(* %s %s)' % (e[a[0].id], e[a[1].id]))
        if op == 'neg':
            return '(- %s)' % e[a[0].id]
        if op == 'div':
            if tm.isc(a[1]) and a[1].p == 0:
                # division by the constant zero: unspecified value (SMT-LIB leaves x/0 uninterpreted); reported with the encoding info
                self.info['div_by_constant_zero'] = self.info.get('div_by_constant_zero', 0) + 1
                n = 'n%d' % t.id
                self.declare(n, 'Real')
                return n
            if tm.isc(a[1]):
                return self._def(t, '(* %s %s)' % (e[a[0].id], num(1 / a[1].p)))
            self.info['divs'] += 1
            return self._def(t, '(* %s %s)' % (e[a[0].id], self.inv_expr(a[1])))
        if op == 'i2r' or op == 'r2i':
            return e[a[0].id]
        if op == 'fn':
            return self._fn(t)
        if op == 'uf':
            lst = self.ufs.setdefault(t.p, [])
            for a2, v in lst:
                if all((x is y) or (x.sort == 'R' and tm.rat_equal(x, y)) for x, y in zip(a, a2)):
                    return v
            v = self.fresh('u_' + re.sub(r'\W', '_', t.p) + '_', 'Bool' if t.sort == 'B' else 'Real')
            lst.append((a, v))
            return v
        if op == 'ite':
            return self._def(t, '(ite %s %s %s)' % (e[a[0].id], e[a[1].id], e[a[2].id]))
        if op in ('lt', 'le'):
            return '(%s %s %s)' % ({'lt': '<', 'le': '<='}[op], e[a[0].id], e[a[1].id])
        if op == 'eq':
            return '(= %s %s)' % (e[a[0].id], e[a[1].id])
        if op == 'not':
            return '(not %s)' % e[a[0].id]
        if op == 'and':
            return '(and %s %s)' % (e[a[0].id], e[a[1].id])
        if op == 'or':
            return '(or %s %s)' % (e[a[0].id], e[a[1].id])
        if op == 'true':
            return 'true'
        if op == 'false':
            return 'false'
        raise ValueError('smt: cannot encode op %s' % op)

    def _fn(self, t):
        f = t.p
        a = t.a
        e = self.expr
        if f in ('sin', 'cos'):
            s, c, sign = self.angle_vars(a[0])
            if f == 'cos':
                return c
            return s if sign == 1 else '(- %s)' % s
        if f == 'tan':
            s, c, sign = self.angle_vars(a[0])
            n = self._def_div(t, s if sign == 1 else '(- %s)' % s, c)
            return n
        if f == 'sqrt':
            lst = self.atoms.get('sqrt', [])
            known = len(lst)
            v = self.atom_var('sqrt', a)
            if len(self.atoms['sqrt']) > known:
                self.asserts.append('(>= %s 0.0)' % v)
                self.asserts.append('(= (* %s %s) %s)' % (v, v, e[a[0].id]))
                self._link_pow_sqrt()
            return v
        if f == 'fabs':
            known = len(self.atoms.get('fabs', []))
            v = self.atom_var('fabs', a)
            if len(self.atoms['fabs']) > known:
                x = e[a[0].id]
                self.asserts.append('(>= %s 0.0)' % v)
                self.asserts.append('(or (= %s %s) (= %s (- %s)))' % (v, x, v, x))
            return v
        if f == 'exp':
            known = len(self.atoms.get('exp', []))
            v = self.atom_var('exp', a)
            if len(self.atoms['exp']) > known:
                self.asserts.append('(> %s 0.0)' % v)
                # exp(a)*exp(b) = 1 when a = -b ; exp(a) = exp(b)^k for small integer ratios
                for a2, v2 in self.atoms['exp'][:-1]:
                    q = tm.rat_ratio(a[0], a2[0])
                    if q is not None and q.denominator == 1 and 1 < abs(q) <= 4:
                        k = abs(int(q))
                        prod = ' '.join([v2] * k)
                        if q > 0:
                            self.asserts.append('(= %s (* %s))' % (v, prod))
                        else:
                            self.asserts.append('(= (* %s %s) 1.0)' % (v, prod))
                    elif q == -1:
                        self.asserts.append('(= (* %s %s) 1.0)' % (v, v2))
                    elif q is not None and q.numerator in (1, -1) and 1 < q.denominator <= 4:
                        k = q.denominator
                        prod = ' '.join([v] * k)
                        if q > 0:
                            self.asserts.append('(= %s (* %s))' % (v2, prod))
                        else:
                            self.asserts.append('(= (* %s %s) 1.0)' % (v2, prod))
            return v
        if f == 'pow':
            known = len(self.atoms.get('pow', []))
            v = self.atom_var('pow', a)
            if len(self.atoms['pow']) > known:
                self._pow_axioms(a, v)
                self._link_pow_sqrt()
            return v
        # log, asin, atan, acos, erf, sinh, ...: opaque, congruence only
        known = len(self.atoms.get(f, []))
        v = self.atom_var(f, a)
        if f == 'log' and len(self.atoms['log']) > known:
            # log(exp(x)) = x for present exp atoms with the same node
            if a[0].op == 'fn' and a[0].p == 'exp':
                self.asserts.append('(= %s %s)' % (v, e[a[0].a[0].id]))
        return v

    def _def_div(self, t, x, y):
        v = self.fresh('inv')
        self.asserts.append('(= (* %s %s) 1.0)' % (y, v))
        return self._def(t, '(* %s %s)' % (x, v))

    def _pow_axioms(self, a, v):
        base, ex = a
        e = self.expr
        b = e[base.id]
        # positivity for positive base is added by the caller through assumptions: pow(b,x) > 0 if b > 0
        self.asserts.append('(=> (> %s 0.0) (> %s 0.0))' % (b, v))
        for a2, v2 in self.atoms['pow'][:-1]:
            if not ((a2[0] is base) or tm.rat_equal(a2[0], base)):
                continue
            d = tm.sub(ex, a2[1])
            try:
                n, dd = tm.ratnf(d)
            except tm.PolyTooBig:
                continue
            if len(dd) == 1 and () in dd and (len(n) == 0 or (len(n) == 1 and () in n)):
                k = (n.get((), Fraction(0)) / dd[()])
                if k.denominator == 1 and 0 < abs(k) <= 8:
                    k = int(k)
                    prod = ' '.join([b] * abs(k))
                    if k > 0:
                        self.asserts.append('(= %s (* %s %s))' % (v, v2, prod))
                    else:
                        self.asserts.append('(= %s (* %s %s))' % (v2, v, prod))
                elif k.denominator == 2 and abs(k) <= 4:
                    # v = v2 * base^(k): square both sides
                    kk = int(2 * k)
                    prod = ' '.join([b] * abs(kk))
                    if kk > 0:
                        self.asserts.append('(= (* %s %s) (* %s %s %s))' % (v, v, v2, v2, prod))
                    else:
                        self.asserts.append('(= (* %s %s) (* %s %s %s))' % (v2, v2, v, v, prod))
        # constant rational exponent p/q with small q: v^q = base^p
        if tm.isc(ex) and ex.p.denominator <= 24 and abs(ex.p.numerator) <= 24:
            p, q = ex.p.numerator, ex.p.denominator
            lhs = '(* %s)' % ' '.join([v] * q) if q > 1 else v
            if p > 0:
                self.asserts.append('(= %s (* %s 1.0))' % (lhs, ' '.join([b] * p)))
            else:
                self.asserts.append('(= (* %s %s) 1.0)' % (lhs, ' '.join([b] * (-p))))

    def _link_pow_sqrt(self):
        for a1, v1 in self.atoms.get('sqrt', []):
            for a2, v2 in self.atoms.get('pow', []):
                key = (v1, v2)
                if key in self.declared:
                    continue
                if tm.isc(a2[1]) and a2[1].p == Fraction(1, 2) and ((a1[0] is a2[0]) or tm.rat_equal(a1[0], a2[0])):
                    self.declared.add(key)
                    self.asserts.append('(= %s %s)' % (v1, v2))

    # ------------------------------------------------------------------------------------------
    def script(self, assumptions, goals_negated, get_model=False, tactic=NRA_TACTIC):
        """assumptions: Bool terms; goals_negated: Bool terms all asserted (the negated property)"""
        body = []
        for t in assumptions:
            body.append('(assert %s)' % self.enc(t))
        for t in goals_negated:
            body.append('(assert %s)' % self.enc(t))
        out = []
        out.extend(self.decls)
        out.extend('(assert %s)' % x for x in self.asserts)
        out.extend(body)
        out.append(tactic)
        if get_model:
            out.append('(get-model)')
        return '\n'.join(out) + '\n'


_ctr = [0]
_tcache = {}
_cache = {}      # identical scripts (e.g. the double and long double instantiations yield the same term) are solved once per process


def run_solver(script, timeout=60, solver=Z3, workdir=None, tag='q', mem_mb=8000):
    """-> dict(verdict in sat/unsat/unknown/timeout/error, time, output)"""
    h = hashlib.sha1(script.encode()).hexdigest()[:12]
    ck = (h, solver)
    if ck in _cache:
        r = dict(_cache[ck])
        r['cached'] = True
        r['time'] = 0.0
        return r
    if _tcache.get(ck, -1) >= int(timeout):
        # the same script already ran out of an equal or larger budget in this process (the solver is deterministic)
        return dict(verdict='timeout', time=0.0, output='', solver=os.path.basename(solver), hash=h, cached=True)
    _ctr[0] += 1
    path = os.path.join(workdir or '/tmp', '%s-%s-%d-%d.smt2' % (tag, h, os.getpid(), _ctr[0]))
    with open(path, 'w') as fh:
        fh.write(script)
    t0 = time.time()
    name = os.path.basename(solver)
    if name.startswith('z3'):
        cmd = [solver, '-T:%d' % int(timeout), '-memory:%d' % mem_mb, path]
    else:
        cmd = [solver, '--tlimit=%d' % int(timeout * 1000), path]
    try:
        p = subprocess.run(cmd, stdout=subprocess.PIPE, stderr=subprocess.STDOUT, universal_newlines=True, timeout=timeout + 30)
        out = p.stdout
    except subprocess.TimeoutExpired:
        out = 'timeout'
    dt = time.time() - t0
    first = out.strip().split('\n')[0].strip() if out.strip() else ''
    if '(error' in out and not (first == 'unsat' and 'model is not available' in out and out.count('(error') == 1):
        verdict = 'error'
    elif first in ('sat', 'unsat', 'unknown'):
        verdict = first
    elif 'timeout' in out:
        verdict = 'timeout'
    else:
        verdict = 'error'
    try:
        os.unlink(path)
    except OSError:
        pass
    res = dict(verdict=verdict, time=dt, output=out if verdict in ('error', 'sat') else '', solver=name, hash=h)
    if verdict in ('sat', 'unsat'):
        _cache[ck] = res
    elif verdict == 'timeout':
        _tcache[ck] = max(_tcache.get(ck, -1), int(timeout))
    return res


def parse_model(out):
    """very tolerant parser of z3's (get-model) output -> {name: Fraction}"""
    m = {}
    for mm in re.finditer(r'\(define-fun\s+(\|[^|]*\||\S+)\s+\(\)\s+Real\s+((?:\([^()]*(?:\([^()]*\)[^()]*)*\))|\S+?)\)\s', out):
        name, val = mm.group(1), mm.group(2)
        v = _parse_num(val)
        if v is not None:
            m[name.strip('|')] = v
    return m


def _parse_num(s):
    s = s.strip()
    try:
        if s.startswith('(- '):
            v = _parse_num(s[3:-1])
            return -v if v is not None else None
        if s.startswith('(/ '):
            a, b = s[3:-1].split()
            return Fraction(a.rstrip('?')) / Fraction(b.rstrip('?'))
        return Fraction(s.rstrip('?'))
    except Exception:
        return None
