"""Hash-consed term DAG for Engine A (DESIGN.md §3.1/§3.3).

Sorts: 'R' real, 'I' integer, 'B' boolean, 'S' string (equality only).
A term is immutable; structurally equal terms are the same Python object.
"""
import sys
from fractions import Fraction

sys.setrecursionlimit(200000)

_table = {}
_next_id = [0]


class T(object):
    __slots__ = ('op', 'a', 'p', 'sort', 'id')

    def __init__(self, op, a, p, sort):
        self.op = op
        self.a = a          # tuple of child terms
        self.p = p          # payload (Fraction, name, ...)
        self.sort = sort
        self.id = _next_id[0]
        _next_id[0] += 1

    def __repr__(self):
        return show(self, 6)

    # arithmetic sugar for spec/operators
    def __add__(self, o): return add(self, lift(o))
    def __radd__(self, o): return add(lift(o), self)
    def __sub__(self, o): return sub(self, lift(o))
    def __rsub__(self, o): return sub(lift(o), self)
    def __mul__(self, o): return mul(self, lift(o))
    def __rmul__(self, o): return mul(lift(o), self)
    def __truediv__(self, o): return div(self, lift(o))
    def __rtruediv__(self, o): return div(lift(o), self)
    def __neg__(self): return neg(self)

    def __pow__(self, n):
        if isinstance(n, int):
            return ipow(self, n)
        return fn('pow', self, lift(n))

    def __hash__(self):
        return self.id

    def __eq__(self, o):
        return self is o

    def __ne__(self, o):
        return self is not o


def mk(op, a=(), p=None, sort='R'):
    key = (op, tuple(x.id for x in a), p, sort)
    t = _table.get(key)
    if t is None:
        t = T(op, tuple(a), p, sort)
        _table[key] = t
    return t


def const(v):
    if not isinstance(v, Fraction):
        v = Fraction(v)
    return mk('c', (), v, 'R')


def iconst(v):
    return mk('c', (), Fraction(int(v)), 'I')


def sym(name, sort='R'):
    return mk('sym', (), name, sort)


_undef_n = [0]


def undef(tag, sort='R'):
    _undef_n[0] += 1
    return mk('undef', (), '%s#%d' % (tag, _undef_n[0]), sort)


def lift(o):
    if isinstance(o, T):
        return o
    if isinstance(o, (int, Fraction)):
        return const(Fraction(o))
    if isinstance(o, float):
        return const(Fraction(o))
    raise TypeError('cannot lift %r' % (o,))


ZERO = const(0)
ONE = const(1)
TWO = const(2)
PI = sym('PI')
TRUE = mk('true', (), None, 'B')
FALSE = mk('false', (), None, 'B')


def isc(t):
    return t.op == 'c'


def add(a, b):
    s = a.sort
    if isc(a) and isc(b):
        return mk('c', (), a.p + b.p, s)
    if isc(a) and a.p == 0:
        return b
    if isc(b) and b.p == 0:
        return a
    return mk('add', (a, b), None, s)


def sub(a, b):
    s = a.sort
    if isc(a) and isc(b):
        return mk('c', (), a.p - b.p, s)
    if isc(b) and b.p == 0:
        return a
    if isc(a) and a.p == 0:
        return neg(b)
    if a is b:
        return mk('c', (), Fraction(0), s)
    return mk('sub', (a, b), None, s)


def mul(a, b):
    s = a.sort
    if isc(a) and isc(b):
        return mk('c', (), a.p * b.p, s)
    if isc(a):
        if a.p == 0:
            return a
        if a.p == 1:
            return b
        if a.p == -1:
            return neg(b)
    if isc(b):
        if b.p == 0:
            return b
        if b.p == 1:
            return a
        if b.p == -1:
            return neg(a)
    return mk('mul', (a, b), None, s)


def div(a, b):
    if isc(b) and b.p != 0:
        if isc(a):
            return const(a.p / b.p)
        if b.p == 1:
            return a
    if isc(a) and a.p == 0 and not isc(b):
        return a
    return mk('div', (a, b), None, 'R')


def neg(a):
    if isc(a):
        return mk('c', (), -a.p, a.sort)
    if a.op == 'neg':
        return a.a[0]
    return mk('neg', (a,), None, a.sort)


def ipow(a, n):
    if n == 0:
        return ONE
    if n < 0:
        return div(ONE, ipow(a, -n))
    r = a
    for _ in range(n - 1):
        r = mul(r, a)
    return r


LIBM1 = ('sin', 'cos', 'tan', 'exp', 'log', 'sqrt', 'fabs', 'atan', 'asin', 'acos', 'erf',
         'sinh', 'cosh', 'tanh', 'log10', 'floor', 'ceil')


def fn(name, *args):
    args = tuple(lift(x) for x in args)
    if name == 'acos' and isc(args[0]) and args[0].p == -1:
        return PI
    if name == 'acos' and isc(args[0]) and args[0].p == 1:
        return ZERO
    if name == 'atan' and isc(args[0]) and args[0].p == 1:
        return div(PI, const(4))
    if name == 'atan' and isc(args[0]) and args[0].p == 0:
        return ZERO
    if name in ('sin', 'tan', 'asin', 'sinh', 'tanh', 'erf') and isc(args[0]) and args[0].p == 0:
        return ZERO
    if name in ('cos', 'exp', 'cosh') and isc(args[0]) and args[0].p == 0:
        return ONE
    if name == 'log' and isc(args[0]) and args[0].p == 1:
        return ZERO
    if name == 'sqrt' and isc(args[0]) and args[0].p >= 0:
        r = _exact_sqrt(args[0].p)
        if r is not None:
            return const(r)
    if name == 'fabs' and isc(args[0]):
        return const(abs(args[0].p))
    if name == 'fabs' and args[0].op == 'fn' and args[0].p == 'fabs':
        return args[0]
    if name == 'pow':
        b, e = args
        if isc(e) and e.p.denominator == 1 and abs(e.p.numerator) <= 64:
            return ipow(b, int(e.p))
        if isc(b) and isc(e) and b.p > 0 and e.p.denominator == 2:
            r = _exact_sqrt(b.p)
            if r is not None:
                return const(r ** int(e.p.numerator))
    return mk('fn', args, name, 'R')


def _isqrt(n):
    import math
    return math.isqrt(n)


def _exact_sqrt(q):
    n, d = q.numerator, q.denominator
    rn, rd = _isqrt(n), _isqrt(d)
    if rn * rn == n and rd * rd == d:
        return Fraction(rn, rd)
    return None


def uf(name, *args, **kw):
    """uninterpreted function application"""
    return mk('uf', tuple(args), name, kw.get('sort', 'R'))


def ite(c, a, b):
    if c is TRUE:
        return a
    if c is FALSE:
        return b
    if a is b:
        return a
    return mk('ite', (c, a, b), None, a.sort)


def cmp(op, a, b):
    """op in lt le gt ge eq ne -> Bool term"""
    if isc(a) and isc(b):
        r = {'lt': a.p < b.p, 'le': a.p <= b.p, 'gt': a.p > b.p, 'ge': a.p >= b.p,
             'eq': a.p == b.p, 'ne': a.p != b.p}[op]
        return TRUE if r else FALSE
    if a is b and a.op != 'undef':
        return TRUE if op in ('le', 'ge', 'eq') else FALSE
    if op == 'gt':
        return mk('lt', (b, a), None, 'B')
    if op == 'ge':
        return mk('le', (b, a), None, 'B')
    if op == 'ne':
        return lnot(mk('eq', (a, b), None, 'B'))
    if op == 'eq' and a.id > b.id:
        a, b = b, a
    return mk(op, (a, b), None, 'B')


def lnot(a):
    if a is TRUE:
        return FALSE
    if a is FALSE:
        return TRUE
    if a.op == 'not':
        return a.a[0]
    return mk('not', (a,), None, 'B')


def land(*xs):
    out = []
    for x in xs:
        if x is FALSE:
            return FALSE
        if x is TRUE:
            continue
        out.append(x)
    if not out:
        return TRUE
    r = out[0]
    for x in out[1:]:
        r = mk('and', (r, x), None, 'B')
    return r


def lor(*xs):
    out = []
    for x in xs:
        if x is TRUE:
            return TRUE
        if x is FALSE:
            continue
        out.append(x)
    if not out:
        return FALSE
    r = out[0]
    for x in out[1:]:
        r = mk('or', (r, x), None, 'B')
    return r


# ----------------------------------------------------------------------------------------------
# traversal

def topo(roots):
    """post-order list of all nodes reachable from roots (iterative)"""
    seen = set()
    out = []
    for r in roots:
        if r.id in seen:
            continue
        stack = [(r, 0)]
        seen.add(r.id)
        while stack:
            t, i = stack.pop()
            if i < len(t.a):
                stack.append((t, i + 1))
                c = t.a[i]
                if c.id not in seen:
                    seen.add(c.id)
                    stack.append((c, 0))
            else:
                out.append(t)
    return out


def leaves(roots, op='sym'):
    return [t for t in topo(roots) if t.op == op]


def size(roots):
    return len(topo(roots))


def show(t, depth=4):
    if t.op == 'c':
        return str(t.p)
    if t.op in ('sym', 'undef'):
        return str(t.p)
    if depth <= 0:
        return '#%d' % t.id
    a = [show(x, depth - 1) for x in t.a]
    if t.op in ('add', 'sub', 'mul', 'div'):
        return '(%s %s %s)' % (a[0], {'add': '+', 'sub': '-', 'mul': '*', 'div': '/'}[t.op], a[1])
    if t.op == 'neg':
        return '-%s' % a[0]
    if t.op in ('fn', 'uf'):
        return '%s(%s)' % (t.p, ', '.join(a))
    return '%s(%s)' % (t.op, ', '.join(a))


def subst(roots, mapping):
    """mapping: {term: term}. returns list of new roots"""
    memo = {}
    for k, v in mapping.items():
        memo[k.id] = v
    for t in topo(roots):
        if t.id in memo:
            continue
        if not t.a:
            memo[t.id] = t
            continue
        na = tuple(memo[c.id] for c in t.a)
        if all(x is y for x, y in zip(na, t.a)):
            memo[t.id] = t
        else:
            memo[t.id] = rebuild(t, na)
    return [memo[r.id] for r in roots]


def rebuild(t, na):
    op = t.op
    if op == 'add':
        return add(*na)
    if op == 'sub':
        return sub(*na)
    if op == 'mul':
        return mul(*na)
    if op == 'div':
        return div(*na)
    if op == 'neg':
        return neg(*na)
    if op == 'fn':
        return fn(t.p, *na)
    if op == 'ite':
        return ite(*na)
    if op in ('lt', 'le', 'eq'):
        return cmp(op, *na)
    if op == 'not':
        return lnot(*na)
    if op == 'and':
        return land(*na)
    if op == 'or':
        return lor(*na)
    return mk(op, na, t.p, t.sort)


# ----------------------------------------------------------------------------------------------
# differentiation (DESIGN.md §3.3).  d/dv of every node, memoised per variable.

class Diff(object):
    def __init__(self, var, opaque_d=None):
        self.var = var
        self.memo = {}
        # opaque_d: callback(term, self) -> derivative for 'uf' nodes / special leaves, or None
        self.opaque_d = opaque_d

    def __call__(self, root):
        for t in topo([root]):
            if t.id not in self.memo:
                self.memo[t.id] = self._d(t)
        return self.memo[root.id]

    def _d(self, t):
        m = self.memo
        op = t.op
        if t is self.var:
            return ONE
        if op in ('c', 'sym', 'undef'):
            if self.opaque_d is not None:
                r = self.opaque_d(t, self)
                if r is not None:
                    return r
            return ZERO
        if t.sort != 'R':
            return ZERO
        a = t.a
        if op == 'add':
            return add(m[a[0].id], m[a[1].id])
        if op == 'sub':
            return sub(m[a[0].id], m[a[1].id])
        if op == 'neg':
            return neg(m[a[0].id])
        if op == 'mul':
            return add(mul(m[a[0].id], a[1]), mul(a[0], m[a[1].id]))
        if op == 'div':
            da, db = m[a[0].id], m[a[1].id]
            if db is ZERO:
                return div(da, a[1])
            # d(a/b) = da/b - (a/b) db/b   (uses the node itself, keeps the DAG shared)
            return sub(div(da, a[1]), div(mul(t, db), a[1]))
        if op == 'ite':
            return ite(a[0], m[a[1].id], m[a[2].id])
        if op == 'fn':
            f = t.p
            x = a[0]
            dx = m[x.id]
            if f == 'pow':
                b, e = a
                db, de = m[b.id], m[e.id]
                r = ZERO
                if db is not ZERO:
                    r = add(r, div(mul(mul(e, t), db), b))
                if de is not ZERO:
                    r = add(r, mul(mul(t, fn('log', b)), de))
                return r
            if f == 'atan2':
                y, xx = a
                dy, dxx = m[y.id], m[xx.id]
                return div(sub(mul(xx, dy), mul(y, dxx)), add(mul(xx, xx), mul(y, y)))
            if dx is ZERO:
                return ZERO
            if f == 'sin':
                return mul(fn('cos', x), dx)
            if f == 'cos':
                return neg(mul(fn('sin', x), dx))
            if f == 'tan':
                return mul(add(ONE, mul(t, t)), dx)
            if f == 'exp':
                return mul(t, dx)
            if f == 'log':
                return div(dx, x)
            if f == 'sqrt':
                return div(dx, mul(TWO, t))
            if f == 'atan':
                return div(dx, add(ONE, mul(x, x)))
            if f == 'asin':
                return div(dx, fn('sqrt', sub(ONE, mul(x, x))))
            if f == 'acos':
                return neg(div(dx, fn('sqrt', sub(ONE, mul(x, x)))))
            if f == 'erf':
                return mul(mul(div(TWO, fn('sqrt', PI)), fn('exp', neg(mul(x, x)))), dx)
            if f == 'sinh':
                return mul(fn('cosh', x), dx)
            if f == 'cosh':
                return mul(fn('sinh', x), dx)
            if f == 'tanh':
                return mul(sub(ONE, mul(t, t)), dx)
            if f == 'fabs':
                return mul(div(t, x), dx)      # sign(x) = |x|/x, x != 0
            raise ValueError('no derivative rule for ' + f)
        if op == 'uf':
            if self.opaque_d is not None:
                r = self.opaque_d(t, self)
                if r is not None:
                    return r
            raise ValueError('derivative of uninterpreted function %s requested' % t.p)
        raise ValueError('cannot differentiate op ' + op)


def D(t, v):
    return Diff(v)(t)


# ----------------------------------------------------------------------------------------------
# numeric evaluation (mpmath) -- used for replay and candidate detection, never for a verdict

def evalf(roots, env, mp, ufs=None):
    """env: {symbol name: mp number}; returns list of mp values. Bool terms -> Python bool."""
    val = {}
    for t in topo(roots):
        op = t.op
        a = t.a
        if op == 'c':
            v = mp.mpf(t.p.numerator) / mp.mpf(t.p.denominator)
        elif op == 'sym':
            if t.p == 'PI':
                v = mp.pi
            else:
                v = env[t.p]
        elif op == 'undef':
            v = env.get(t.p, mp.nan)
        elif op == 'add':
            v = val[a[0].id] + val[a[1].id]
        elif op == 'sub':
            v = val[a[0].id] - val[a[1].id]
        elif op == 'mul':
            v = val[a[0].id] * val[a[1].id]
        elif op == 'div':
            v = val[a[0].id] / val[a[1].id]
        elif op == 'neg':
            v = -val[a[0].id]
        elif op == 'fn':
            f = t.p
            x = val[a[0].id]
            if f == 'pow':
                v = mp.power(x, val[a[1].id])
            elif f == 'atan2':
                v = mp.atan2(x, val[a[1].id])
            elif f == 'fabs':
                v = abs(x)
            elif f == 'log10':
                v = mp.log10(x)
            else:
                v = getattr(mp, {'log': 'log', 'asin': 'asin', 'acos': 'acos', 'atan': 'atan'}.get(f, f))(x)
        elif op == 'uf':
            v = ufs[t.p](*[val[c.id] for c in a])
        elif op == 'ite':
            v = val[a[1].id] if val[a[0].id] else val[a[2].id]
        elif op == 'lt':
            v = val[a[0].id] < val[a[1].id]
        elif op == 'le':
            v = val[a[0].id] <= val[a[1].id]
        elif op == 'eq':
            v = val[a[0].id] == val[a[1].id]
        elif op == 'not':
            v = not val[a[0].id]
        elif op == 'and':
            v = val[a[0].id] and val[a[1].id]
        elif op == 'or':
            v = val[a[0].id] or val[a[1].id]
        elif op == 'true':
            v = True
        elif op == 'false':
            v = False
        else:
            raise ValueError('evalf: op ' + op)
        val[t.id] = v
    return [val[r.id] for r in roots]


# ----------------------------------------------------------------------------------------------
# rational-function normal form over opaque leaves (used to canonicalise angles and atom arguments)

class PolyTooBig(Exception):
    pass


def _padd(p, q, s=1):
    r = dict(p)
    for m, c in q.items():
        v = r.get(m, 0) + s * c
        if v == 0:
            r.pop(m, None)
        else:
            r[m] = v
    return r


def _pmul(p, q, cap):
    if len(p) * len(q) > cap:
        raise PolyTooBig()
    r = {}
    for m1, c1 in p.items():
        for m2, c2 in q.items():
            d = dict(m1)
            for k, e in m2:
                d[k] = d.get(k, 0) + e
            m = tuple(sorted(d.items()))
            v = r.get(m, 0) + c1 * c2
            if v == 0:
                r.pop(m, None)
            else:
                r[m] = v
    return r


def ratnf(t, cap=4000, memo=None):
    """(num, den) as dict{monomial: Fraction}; monomial = tuple of (leaf id, exponent).
    Non-arithmetic subterms are leaves keyed by node id."""
    if memo is None:
        memo = {}
    one = {(): Fraction(1)}
    for n in topo([t]):
        if n.id in memo:
            continue
        op = n.op
        if op == 'c':
            r = ({(): n.p} if n.p != 0 else {}, one)
        elif op in ('add', 'sub'):
            (n1, d1), (n2, d2) = memo[n.a[0].id], memo[n.a[1].id]
            s = 1 if op == 'add' else -1
            if d1 == d2:
                r = (_padd(n1, n2, s), d1)
            else:
                r = (_padd(_pmul(n1, d2, cap), _pmul(n2, d1, cap), s), _pmul(d1, d2, cap))
        elif op == 'mul':
            (n1, d1), (n2, d2) = memo[n.a[0].id], memo[n.a[1].id]
            r = (_pmul(n1, n2, cap), _pmul(d1, d2, cap))
        elif op == 'div':
            (n1, d1), (n2, d2) = memo[n.a[0].id], memo[n.a[1].id]
            r = (_pmul(n1, d2, cap), _pmul(d1, n2, cap))
        elif op == 'neg':
            n1, d1 = memo[n.a[0].id]
            r = ({m: -c for m, c in n1.items()}, d1)
        else:
            r = ({((canon_id(n, cap), 1),): Fraction(1)}, one)
        memo[n.id] = r
    return memo[t.id]


_canon = {}          # node id -> canonical leaf id
_canon_reps = {}     # (op, payload, arity) -> list of representative nodes


def canon_id(n, cap=4000):
    """canonical identity of an opaque (non-arithmetic) node: two function applications with the same symbol whose
    arguments are equal as rational functions share one identity (congruence closure restricted to rat_equal)"""
    c = _canon.get(n.id)
    if c is not None:
        return c
    if n.op not in ('fn', 'uf') or not n.a:
        _canon[n.id] = n.id
        return n.id
    key = (n.op, n.p, len(n.a))
    reps = _canon_reps.setdefault(key, [])
    _canon[n.id] = n.id          # provisional (guards against cycles)
    for r in reps:
        try:
            if all((x is y) or rat_equal(x, y, cap) for x, y in zip(n.a, r.a)):
                _canon[n.id] = _canon[r.id]
                return _canon[n.id]
        except RecursionError:
            break
    reps.append(n)
    return n.id


def rat_equal(a, b, cap=4000):
    """True if a == b as rational functions of their opaque leaves (denominators assumed nonzero).
    Returns None if too big to decide."""
    try:
        memo = {}
        n1, d1 = ratnf(a, cap, memo)
        n2, d2 = ratnf(b, cap, memo)
        return _pmul(n1, d2, cap * 4) == _pmul(n2, d1, cap * 4)
    except PolyTooBig:
        return None


def rat_ratio(a, b, cap=4000):
    """If a == q*b for a rational constant q (as rational functions), return q, else None."""
    try:
        memo = {}
        n1, d1 = ratnf(a, cap, memo)
        n2, d2 = ratnf(b, cap, memo)
        l = _pmul(n1, d2, cap * 4)
        r = _pmul(n2, d1, cap * 4)
        if not r or not l:
            return None
        if set(l.keys()) != set(r.keys()):
            return None
        q = None
        for m in l:
            qq = l[m] / r[m]
            if q is None:
                q = qq
            elif q != qq:
                return None
        return q
    except PolyTooBig:
        return None


# ----------------------------------------------------------------------------------------------
# constants: exact decoding of IR bit patterns and type-relative snapping (DESIGN.md §3.3)

def decode_fp(bits_hex, ty):
    """-> (Fraction exact value or None for inf/nan, kind)"""
    b = int(bits_hex, 16)
    if ty == 'f64':
        sign = b >> 63
        e = (b >> 52) & 0x7ff
        m = b & ((1 << 52) - 1)
        if e == 0x7ff:
            return None, ('nan' if m else ('-inf' if sign else 'inf'))
        if e == 0:
            v = Fraction(m, 1 << 1074)
        else:
            v = Fraction((1 << 52) | m) * Fraction(2) ** (e - 1075)
    elif ty == 'f32':
        sign = b >> 31
        e = (b >> 23) & 0xff
        m = b & ((1 << 23) - 1)
        if e == 0xff:
            return None, ('nan' if m else ('-inf' if sign else 'inf'))
        if e == 0:
            v = Fraction(m, 1 << 149)
        else:
            v = Fraction((1 << 23) | m) * Fraction(2) ** (e - 150)
    elif ty == 'f80':
        sign = (b >> 79) & 1
        e = (b >> 64) & 0x7fff
        m = b & ((1 << 64) - 1)
        if e == 0x7fff:
            return None, ('nan' if (m & ((1 << 63) - 1)) else ('-inf' if sign else 'inf'))
        if e == 0:
            v = Fraction(m) * Fraction(2) ** (-16382 - 63)
        else:
            v = Fraction(m) * Fraction(2) ** (e - 16383 - 63)
    else:
        raise ValueError(ty)
    return (-v if sign else v), 'num'


PREC = {'f32': 24, 'f64': 53, 'f80': 64}


def round_to(q, p):
    """round Fraction q to p significant bits, nearest-even (no exponent range limits)"""
    if q == 0:
        return q
    s = -1 if q < 0 else 1
    q = abs(q)
    # find e with 2^(e) <= q < 2^(e+1)
    e = q.numerator.bit_length() - q.denominator.bit_length()
    if Fraction(2) ** e > q:
        e -= 1
    scale = Fraction(2) ** (p - 1 - e)
    x = q * scale
    n = x.numerator // x.denominator
    rem = x - n
    if rem > Fraction(1, 2) or (rem == Fraction(1, 2) and (n & 1)):
        n += 1
    return s * Fraction(n) / scale


def simplest_between(lo, hi):
    """simplest fraction in the closed interval [lo, hi], 0 < lo <= hi"""
    # Stern-Brocot via continued fractions
    fl = lo.numerator // lo.denominator
    if Fraction(fl) == lo:
        return Fraction(fl)
    if fl + 1 <= hi:
        return Fraction(fl + 1)
    r = simplest_between(1 / (hi - fl), 1 / (lo - fl))
    return fl + 1 / r


_PI_Q = Fraction(314159265358979323846264338327950288419716939937510582097494459230781640628620899, 10 ** 80)


def snap_pi(v, ty, maxden=1 << 12):
    """(q, inverse) with round_ty(q*pi) == v  (inverse: round_ty(q/pi) == v) for a simple rational q, or None"""
    if v == 0:
        return None
    p = PREC[ty]
    s = -1 if v < 0 else 1
    a = abs(v)
    e = a.numerator.bit_length() - a.denominator.bit_length()
    if Fraction(2) ** e > a:
        e -= 1
    ulp = Fraction(2) ** (e - p + 1)
    for inverse in (False, True):
        b = 1 / _PI_Q if inverse else _PI_Q
        r = simplest_between((a - ulp * Fraction(511, 1024)) / b, (a + ulp * Fraction(511, 1024)) / b)
        if r.denominator <= maxden and r.numerator <= maxden and round_to(r * b, p) == a:
            return s * r, inverse
    return None


def snap(v, ty, maxden=1 << 20):
    """simplest rational r with round_ty(r) == v, or None"""
    if v == 0:
        return v
    p = PREC[ty]
    s = -1 if v < 0 else 1
    a = abs(v)
    e = a.numerator.bit_length() - a.denominator.bit_length()
    if Fraction(2) ** e > a:
        e -= 1
    ulp = Fraction(2) ** (e - p + 1)
    lo = a - ulp * Fraction(511, 1024)
    hi = a + ulp * Fraction(511, 1024)
    r = simplest_between(lo, hi)
    if r.denominator > maxden or r.numerator > (1 << 40):
        # decimal literal with few digits?  (e.g. 0.41, 287.058)
        for k in range(1, 13):
            d = 10 ** k
            n = round(a * d)
            c = Fraction(n, d)
            if round_to(c, p) == a:
                return s * c
        return None
    if round_to(r, p) != a:
        return None
    return s * r
