"""Governing differential operators, written from the model definitions (DESIGN.md §3.4).
Each takes terms for the fields and returns the residual term(s).  D = symbolic differentiation."""
import terms as tm
from terms import D
from pde import X, Y, Z, TT


def heat(T, coords, P, steady):
    """rho*cp(T)*dT/dt - div(k(T) grad T), k = k_0+k_1 T+k_2 T^2, cp likewise (missing coefficients are 0)"""
    g = lambda n: P.get(n, tm.ZERO)
    k = g('k_0') + g('k_1') * T + g('k_2') * T * T
    cp = g('cp_0') + g('cp_1') * T + g('cp_2') * T * T
    r = tm.ZERO
    for v in coords:
        r = r - D(k * D(T, v), v)
    if not steady:
        r = r + g('rho') * cp * D(T, TT)
    return r


def flow(fields, coords, P, t=None, axisymmetric=False, viscous=None, asbuilt=None):
    """Residuals of the compressible Euler / Navier-Stokes equations in conservative form.
    fields: dict rho,u[,v][,w],p (terms).  coords: list of spatial coordinate symbols.
    Cartesian: velocity components (u,v,w) along coords.  Axisymmetric: coords=(r,z), velocity (u radial, w axial).
    viscous: None (Euler) or dict(mu=..., k=..., R=..., bulk=lambda coefficient or None for -2/3 mu).
    Returns dict: 'rho', 'rho_u', ['rho_v'], ['rho_w'], 'rho_e'."""
    rho, p = fields['rho'], fields['p']
    G = P['Gamma']
    if axisymmetric:
        r, z = coords
        vel = [fields['u'], fields['w']]
        names = ['u', 'w']
    else:
        names = ['u', 'v', 'w'][:len(coords)]
        vel = [fields[n] for n in names]
    ke = tm.ZERO
    for c in vel:
        ke = ke + c * c
    et = p / ((G - 1) * rho) + ke / 2
    H = et + p / rho

    def ddt(q):
        return D(q, t) if t is not None else tm.ZERO

    def div(fl):
        """divergence of the vector with components fl along coords"""
        if axisymmetric:
            return D(r * fl[0], r) / r + D(fl[1], z)
        s = tm.ZERO
        for f, c in zip(fl, coords):
            s = s + D(f, c)
        return s

    res = {}
    res['rho'] = ddt(rho) + div([rho * c for c in vel])
    for i, n in enumerate(names):
        res['rho_' + n] = ddt(rho * vel[i]) + div([rho * vel[i] * c for c in vel]) + D(p, coords[i])
    res['rho_e'] = ddt(rho * et) + div([rho * c * H for c in vel])
    if viscous is not None:
        mu, k, R = viscous['mu'], viscous['k'], viscous['R']
        T = p / (rho * R)
        dv = div(vel)
        lam = viscous.get('bulk')
        if lam is None:
            lam = -(tm.TWO / 3) * mu
        n = len(vel)
        grad = [[D(vel[j], coords[i]) for j in range(n)] for i in range(n)]      # grad[i][j] = d u_j / d x_i
        tau = [[mu * (grad[i][j] + grad[j][i]) + (lam * dv if i == j else tm.ZERO) for j in range(n)] for i in range(n)]
        if asbuilt and asbuilt.get('tau_rz_without_dw_dr'):
            # as-built model of the axisymmetric solutions (known finding): shear stress mu*du/dz only
            tau[0][1] = tau[1][0] = mu * grad[1][0]
        q = [-k * D(T, c) for c in coords]
        for i, nm in enumerate(names):
            visc = div([tau[i][j] for j in range(n)])
            if axisymmetric and i == 0 and not (asbuilt and asbuilt.get('no_hoop_stress')):
                tau_tt = 2 * mu * vel[0] / r + lam * dv
                visc = visc - tau_tt / r
            res['rho_' + nm] = res['rho_' + nm] - visc
        work = [sum((vel[i] * tau[i][j] for i in range(n)), tm.ZERO) - q[j] for j in range(n)]
        if asbuilt and asbuilt.get('energy_viscous_work_sign_flipped'):
            # as-built model (known finding): viscous work enters the energy source with the opposite sign
            workv = [sum((vel[i] * tau[i][j] for i in range(n)), tm.ZERO) for j in range(n)]
            res['rho_e'] = res['rho_e'] + div(workv) + div(q)
        else:
            res['rho_e'] = res['rho_e'] - div(work)
    return res


def reacting_euler_1d(f, P, x, Keq):
    """Two-species (N, N2) thermally-perfect reacting Euler equations in 1-D, steady.
    f: dict rho_N, rho_N2, u, T (terms); Keq: term of the equilibrium constant at T.
    Dissociation N2 + M <-> 2N + M with Arrhenius forward rates k_f,s = C_f,s T^eta_s exp(-Ea_s/(R T)):
      omega_N = (2 k_fN rho_N + k_fN2 rho_N2) * (rho_N2/(2 M_N) - rho_N^2/(M_N^2 K_eq))     (mass production of N)
    Pressure p = rho_N R_N T + rho_N2 (R_N/2) T.  Enthalpies: h_N = 5/2 R_N T + h0_N,
    h_N2 = 7/2 (R_N/2) T + e_vib + h0_N2 with e_vib = R_N2 theta_v/(exp(theta_v/T) - 1)."""
    rN, rN2, u, T = f['rho_N'], f['rho_N2'], f['u'], f['T']
    rho = rN + rN2
    kN = P['Cf1_N'] * tm.fn('pow', T, P['etaf1_N']) * tm.fn('exp', -P['Ea_N'] / (P['R'] * T))
    kN2 = P['Cf1_N2'] * tm.fn('pow', T, P['etaf1_N2']) * tm.fn('exp', -P['Ea_N2'] / (P['R'] * T))
    M = P['M_N']
    omega = (2 * kN * rN + kN2 * rN2) * (rN2 / (2 * M) - rN * rN / (M * M * Keq))
    p = P['R_N'] * T * (rN + rN2 / 2)
    evib = P['R_N2'] * P['theta_v_N2'] / (tm.fn('exp', P['theta_v_N2'] / T) - 1)
    hN = tm.const(5) / 2 * P['R_N'] * T + P['h0_N']
    hN2 = tm.const(7) / 4 * P['R_N'] * T + evib + P['h0_N2']
    res = {}
    res['rho_N'] = D(rN * u, x) - omega
    res['rho_N2'] = D(rN2 * u, x) + omega
    res['rho_u'] = D(rho * u * u, x) + D(p, x)
    res['rho_e'] = D(u * (rN * hN + rN2 * hN2 + rho * u * u / 2), x)
    res['mass'] = D(rho * u, x)
    return res


def sa_channel(u, nu, eta, P):
    """Spalart-Allmaras closed RANS channel flow (wall units, eta = y/delta in (0,1)), modified-SA production limiter.
    u, nu: exact fields (terms in eta).  Returns dict Q_u, Q_v:
      Q_u = u''/Re_tau + (nu_t u')' + 1,                  nu_t = nu f_v1(chi), chi = nu Re_tau, f_v1 = chi^3/(chi^3 + c_v1^3)
      Q_v = c_b1 S~ nu - c_w1 f_w (nu/eta)^2 + (1/sigma) [ ((1/Re_tau + nu) nu')' + c_b2 nu'^2 ]
      S~ = u' + S-  if S- >= -c_v2 u'  else  u' + u'(c_v2^2 u' + c_v3 S-)/((c_v3 - 2 c_v2) u' - S-),   S- = nu f_v2/(kappa^2 eta^2), f_v2 = 1 - chi/(1 + chi f_v1)
      r = min(nu/(S~ kappa^2 eta^2), 10), g = r + c_w2 (r^6 - r), f_w = g ((1 + c_w3^6)/(g^6 + c_w3^6))^(1/6), c_w1 = c_b1/kappa^2 + (1 + c_b2)/sigma"""
    Re = P['re_tau']
    du, dnu = D(u, eta), D(nu, eta)
    chi = nu * Re
    fv1 = chi ** 3 / (chi ** 3 + P['cv1'] ** 3)
    nut = nu * fv1
    Qu = D(du, eta) / Re + D(nut * du, eta) + 1
    fv2 = 1 - chi / (1 + chi * fv1)
    k2e2 = P['kappa'] * P['kappa'] * eta * eta
    Sbar = nu * fv2 / k2e2
    S = tm.ite(tm.cmp('ge', Sbar, -P['cv2'] * du), du + Sbar,
               du + du * (P['cv2'] * P['cv2'] * du + P['cv3'] * Sbar) / ((P['cv3'] - 2 * P['cv2']) * du - Sbar))
    r0 = nu / (S * k2e2)
    r = tm.ite(tm.cmp('gt', r0, tm.const(10)), tm.const(10), r0)
    g = r + P['cw2'] * (r ** 6 - r)
    fw = g * tm.fn('pow', (1 + P['cw3'] ** 6) / (g ** 6 + P['cw3'] ** 6), tm.const(1) / 6)
    cw1 = P['cb1'] / (P['kappa'] * P['kappa']) + (1 + P['cb2']) / P['sigma']
    prod = P['cb1'] * S * nu
    dest = cw1 * fw * (nu / eta) ** 2
    trans = (D((1 / Re + nu) * dnu, eta) + P['cb2'] * dnu * dnu) / P['sigma']
    return dict(Q_u=Qu, Q_v=prod - dest + trans)


def fans_sa(f, coords, P, t=None, wall_distance=None, sa_extra=None, asbuilt=None):
    """Favre-averaged Navier-Stokes closed with the Spalart-Allmaras model, 2-D, conservative form.
    f: dict rho,u,v,p,nu (terms).  mu_t = rho nu f_v1(chi), chi = rho nu/mu, f_v1 = chi^3/(chi^3+c_v1^3).
      mass   : rho_t + div(rho u)
      mom_i  : (rho u_i)_t + div(rho u_i u) + dp/dx_i - div(tau_i),  tau = (mu+mu_t)(grad u + grad u^T - 2/3 div u I)
      energy : (rho E)_t + div(rho u H) - div(tau.u) - div((mu cp/Pr + mu_t cp/Pr_t) grad T),  T = p/(rho R), E = cv T + |u|^2/2, cv = R/(Gamma-1), cp = Gamma cv
      nu     : (rho nu)_t + div(rho nu u) - c_b1 S rho nu + [c_w1 f_w rho (nu/d)^2 if wall] - (1/sigma)[div((mu + rho nu) grad nu) + c_b2 rho |grad nu|^2]
               S = |du/dy - dv/dx| (+ nu f_v2/(kappa^2 d^2) with a wall)"""
    x, y = coords
    rho, u, v, p, nu = f['rho'], f['u'], f['v'], f['p'], f['nu']
    mu = P['mu']
    chi = rho * nu / mu
    fv1 = chi ** 3 / (chi ** 3 + P['c_v1'] ** 3)
    frozen = None
    if asbuilt and asbuilt.get('f_v1_not_differentiated'):
        # as-built model (known finding): f_v1 is treated as a constant when the eddy viscosity is differentiated
        frozen = tm.sym('f_v1:frozen')
    mut = rho * nu * (frozen if frozen is not None else fv1)
    cv = P['R'] / (P['Gamma'] - 1)
    cp = P['Gamma'] * cv
    # f['T'], when given, is an expression the caller has PROVED equal to p/(rho R) on the (open) admissible set; it is then used
    # as the temperature field (equal functions on an open set have equal derivatives)
    T = f['T'] if 'T' in f else p / (rho * P['R'])
    ddt = (lambda q: D(q, t)) if t is not None else (lambda q: tm.ZERO)
    div = lambda a, b: D(a, x) + D(b, y)
    dvg = div(u, v)
    me = mu + mut
    txx = me * (2 * D(u, x) - tm.TWO / 3 * dvg)
    tyy = me * (2 * D(v, y) - tm.TWO / 3 * dvg)
    txy = me * (D(u, y) + D(v, x))
    E = cv * T + (u * u + v * v) / 2
    H = E + p / rho
    kap = mu * cp / P['Pr'] + mut * cp / P['Pr_t']
    res = {}
    res['rho'] = ddt(rho) + div(rho * u, rho * v)
    res['rho_u'] = ddt(rho * u) + div(rho * u * u, rho * u * v) + D(p, x) - div(txx, txy)
    res['rho_v'] = ddt(rho * v) + div(rho * u * v, rho * v * v) + D(p, y) - div(txy, tyy)
    res['rho_e'] = ddt(rho * E) + div(rho * u * H, rho * v * H) - div(u * txx + v * txy, u * txy + v * tyy) - div(kap * D(T, x), kap * D(T, y))
    if asbuilt and asbuilt.get('energy_without_rho_cv_dTdt'):
        # as-built model (known finding): the internal-energy part of d(rho E)/dt lacks rho*cv*dT/dt
        res['rho_e'] = res['rho_e'] - rho * cv * ddt(T)
    omega = tm.fn('fabs', D(u, y) - D(v, x))
    S = omega
    dest = tm.ZERO
    if wall_distance is not None:
        d = wall_distance
        fv2 = 1 - chi / (1 + chi * fv1)
        Sm0 = nu * fv2 / (P['kappa'] * P['kappa'] * d * d)
        if 'c_v2' in P:
            # modified SA production limiter (as in the channel solution)
            Sm = tm.ite(tm.cmp('le', -P['c_v2'] * omega, Sm0), Sm0,
                        omega * (P['c_v2'] * P['c_v2'] * omega + P['c_v3'] * Sm0) / ((P['c_v3'] - 2 * P['c_v2']) * omega - Sm0))
        else:
            Sm = Sm0
        S = omega + Sm
        r = nu / (S * P['kappa'] * P['kappa'] * d * d)
        g = r + P['c_w2'] * (r ** 6 - r)
        fw = g * tm.fn('pow', (1 + P['c_w3'] ** 6) / (g ** 6 + P['c_w3'] ** 6), tm.const(1) / 6)
        cw1 = P['c_b1'] / (P['kappa'] * P['kappa']) + (1 + P['c_b2']) / P['sigma']       # SA: c_w1 = c_b1/kappa^2 + (1+c_b2)/sigma
        dest = cw1 * fw * rho * (nu / d) ** 2
    gn2 = D(nu, x) * D(nu, x) + D(nu, y) * D(nu, y)
    res['nu'] = ddt(rho * nu) + div(rho * nu * u, rho * nu * v) - P['c_b1'] * S * rho * nu + dest \
        - (div((mu + rho * nu) * D(nu, x), (mu + rho * nu) * D(nu, y)) + P['c_b2'] * rho * gn2) / P['sigma']
    if frozen is not None:
        keys = sorted(res)
        vals = tm.subst([res[k] for k in keys], {frozen: fv1})
        res = dict(zip(keys, vals))
    return res
