"""Governing differential operators, written from the model definitions (DESIGN.md §3.4).
Each takes terms for the fields and returns the residual term(s).  D = symbolic differentiation."""
import terms as tm
from terms import D
from pde import X, Y, Z, TT


def heat(T, coords, P, steady):
    """rho*cp(T)*dT/dt - div(k(T) grad T), k = k_0+k_1 T+k_2 T^2, cp likewise (missing coefficients are 0)"""
    g = lambda n: P.get(n, tm.ZERO)
    k = g('k_0') + g('k_1') * T + g('k_2') * T * T
    cp = g('cp_0') + g('cp_1') * T + g('cp_2') * T * T
    r = tm.ZERO
    for v in coords:
        r = r - D(k * D(T, v), v)
    if not steady:
        r = r + g('rho') * cp * D(T, TT)
    return r
