"""Governing differential operators, written from the model definitions (DESIGN.md §3.4).
Each takes terms for the fields and returns the residual term(s).  D = symbolic differentiation."""
import terms as tm
from terms import D
from pde import X, Y, Z, TT


def heat(T, coords, P, steady):
    """rho*cp(T)*dT/dt - div(k(T) grad T), k = k_0+k_1 T+k_2 T^2, cp likewise (missing coefficients are 0)"""
    g = lambda n: P.get(n, tm.ZERO)
    k = g('k_0') + g('k_1') * T + g('k_2') * T * T
    cp = g('cp_0') + g('cp_1') * T + g('cp_2') * T * T
    r = tm.ZERO
    for v in coords:
        r = r - D(k * D(T, v), v)
    if not steady:
        r = r + g('rho') * cp * D(T, TT)
    return r


def flow(fields, coords, P, t=None, axisymmetric=False, viscous=None, asbuilt=None):
    """Residuals of the compressible Euler / Navier-Stokes equations in conservative form.
    fields: dict rho,u[,v][,w],p (terms).  coords: list of spatial coordinate symbols.
    Cartesian: velocity components (u,v,w) along coords.  Axisymmetric: coords=(r,z), velocity (u radial, w axial).
    viscous: None (Euler) or dict(mu=..., k=..., R=..., bulk=lambda coefficient or None for -2/3 mu).
    Returns dict: 'rho', 'rho_u', ['rho_v'], ['rho_w'], 'rho_e'."""
    rho, p = fields['rho'], fields['p']
    G = P['Gamma']
    if axisymmetric:
        r, z = coords
        vel = [fields['u'], fields['w']]
        names = ['u', 'w']
    else:
        names = ['u', 'v', 'w'][:len(coords)]
        vel = [fields[n] for n in names]
    ke = tm.ZERO
    for c in vel:
        ke = ke + c * c
    et = p / ((G - 1) * rho) + ke / 2
    H = et + p / rho

    def ddt(q):
        return D(q, t) if t is not None else tm.ZERO

    def div(fl):
        """divergence of the vector with components fl along coords"""
        if axisymmetric:
            return D(r * fl[0], r) / r + D(fl[1], z)
        s = tm.ZERO
        for f, c in zip(fl, coords):
            s = s + D(f, c)
        return s

    res = {}
    res['rho'] = ddt(rho) + div([rho * c for c in vel])
    for i, n in enumerate(names):
        res['rho_' + n] = ddt(rho * vel[i]) + div([rho * vel[i] * c for c in vel]) + D(p, coords[i])
    res['rho_e'] = ddt(rho * et) + div([rho * c * H for c in vel])
    if viscous is not None:
        mu, k, R = viscous['mu'], viscous['k'], viscous['R']
        T = p / (rho * R)
        dv = div(vel)
        lam = viscous.get('bulk')
        if lam is None:
            lam = -(tm.TWO / 3) * mu
        n = len(vel)
        grad = [[D(vel[j], coords[i]) for j in range(n)] for i in range(n)]      # grad[i][j] = d u_j / d x_i
        tau = [[mu * (grad[i][j] + grad[j][i]) + (lam * dv if i == j else tm.ZERO) for j in range(n)] for i in range(n)]
        if asbuilt and asbuilt.get('tau_rz_without_dw_dr'):
            # as-built model of the axisymmetric solutions (known finding): shear stress mu*du/dz only
            tau[0][1] = tau[1][0] = mu * grad[1][0]
        q = [-k * D(T, c) for c in coords]
        for i, nm in enumerate(names):
            visc = div([tau[i][j] for j in range(n)])
            if axisymmetric and i == 0 and not (asbuilt and asbuilt.get('no_hoop_stress')):
                tau_tt = 2 * mu * vel[0] / r + lam * dv
                visc = visc - tau_tt / r
            res['rho_' + nm] = res['rho_' + nm] - visc
        work = [sum((vel[i] * tau[i][j] for i in range(n)), tm.ZERO) - q[j] for j in range(n)]
        if asbuilt and asbuilt.get('energy_viscous_work_sign_flipped'):
            # as-built model (known finding): viscous work enters the energy source with the opposite sign
            workv = [sum((vel[i] * tau[i][j] for i in range(n)), tm.ZERO) for j in range(n)]
            res['rho_e'] = res['rho_e'] + div(workv) + div(q)
        else:
            res['rho_e'] = res['rho_e'] - div(work)
    return res
