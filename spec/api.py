"""Naming rule between the public C++ API templates and the virtual evaluators (DESIGN.md §3.4 cnames)."""
import re

SMASA = {'masa_eval_likelyhood': 'eval_likelyhood', 'masa_eval_loglikelyhood': 'eval_loglikelyhood',
         'masa_eval_prior': 'eval_prior', 'masa_eval_posterior': 'eval_posterior',
         'masa_eval_central_moment': 'eval_cen_mom', 'masa_eval_posterior_mean': 'eval_post_mean',
         'masa_eval_posterior_variance': 'eval_post_var'}


def virtual_of(api):
    """masa_eval_source_rho_u -> eval_q_rho_u ; masa_eval_exact_t -> eval_exact_t ; masa_eval_grad_u -> eval_g_u"""
    if api in SMASA:
        return SMASA[api]
    if api == 'masa_eval_source_boundary':
        return 'eval_q_u_boundary'       # the one irregular pair of the API (ablation boundary source)
    for pre, v in (('masa_eval_source_', 'eval_q_'), ('masa_eval_exact_', 'eval_exact_'), ('masa_eval_grad_', 'eval_g_')):
        if api.startswith(pre):
            return v + api[len(pre):]
    return None


def canon_sig(sig, scalar):
    """'double, double (*)(double), int' -> 'S,F,int'"""
    s = sig.replace('%s (*)(%s)' % (scalar, scalar), 'F')
    parts = [p.strip() for p in s.split(',')] if s.strip() else []
    out = []
    for p in parts:
        if p == scalar:
            out.append('S')
        else:
            out.append(p)
    return ','.join(out)


def parse_api(demangled, scalar):
    """'double MASA::masa_eval_grad_u<double>(double, double, int)' -> (api, canonical sig) or None"""
    m = re.match(r'^(?:.* )?MASA::(masa_eval_\w+)<%s>\((.*)\)$' % re.escape(scalar), demangled)
    if not m:
        return None
    return m.group(1), canon_sig(m.group(2), scalar)


def parse_virtual(demangled, scalar):
    m = re.match(r'^MASA::(\w+)<%s>::(\w+)\((.*)\)$' % re.escape(scalar), demangled)
    if not m:
        return None
    return m.group(1), m.group(2), canon_sig(m.group(3), scalar)
