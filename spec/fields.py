"""Documented manufactured fields for solutions without (complete) exact evaluators (DESIGN.md §3.4)."""
import terms as tm
from pde import X, Y, Z, TT


def heat_T(P, dim, steady):
    """T = cos(A_x x + A_t t) cos(B_y y + B_t t) cos(C_z z + C_t t) cos(D_t t), restricted to the
    solution's dimension; steady solutions have no temporal parameters."""
    g = lambda n: P.get(n, tm.ZERO)
    T = tm.fn('cos', g('A_x') * X + g('A_t') * TT)
    if dim >= 2:
        T = T * tm.fn('cos', g('B_y') * Y + g('B_t') * TT)
    if dim >= 3:
        T = T * tm.fn('cos', g('C_z') * Z + g('C_t') * TT)
    if not steady:
        T = T * tm.fn('cos', g('D_t') * TT)
    return T


# Roy's general form (doxygen/solutions/euler.page eq. manufactured01, cns.page): which of sin/cos each
# coordinate term uses per primitive variable (euler.page eqs manufactured_1d/2d/3d).  The temporal
# completion phi_t f(a_phit pi t/L) of the transient solutions follows the same table ('t' column).
ROY = {
    'rho': dict(x='sin', y='cos', z='sin', t='sin'),
    'u': dict(x='sin', y='cos', z='cos', t='cos'),
    'v': dict(x='cos', y='sin', z='sin', t='sin'),
    'w': dict(x='sin', y='sin', z='cos', t='cos'),
    'p': dict(x='cos', y='sin', z='cos', t='cos'),
}


def roy(P, phi, coords):
    """phi_0 + sum_c phi_c f_c(a_phic pi c / L), coords e.g. 'xy' or 'xyzt'"""
    from pde import COORD
    r = P[phi + '_0']
    for c in coords:
        r = r + P['%s_%s' % (phi, c)] * tm.fn(ROY[phi][c], P['a_%s%s' % (phi, c)] * tm.PI * COORD[c] / P['L'])
    return r


def axi_euler_fields(P, transient):
    """axisymmetric Euler (r,z[,t]); radial velocity vanishes on the axis"""
    from pde import COORD
    r, z, t = COORD['r'], COORD['z'], COORD['t']
    pi, L = tm.PI, P['L']
    f = {}
    f['rho'] = P['rho_0'] + P['rho_r'] * tm.fn('cos', P['a_rhor'] * pi * r / L) + P['rho_z'] * tm.fn('sin', P['a_rhoz'] * pi * z / L)
    f['p'] = P['p_0'] + P['p_r'] * tm.fn('sin', P['a_pr'] * pi * r / L) + P['p_z'] * tm.fn('cos', P['a_pz'] * pi * z / L)
    f['w'] = P['w_0'] + P['w_r'] * tm.fn('cos', P['a_wr'] * pi * r / L) + P['w_z'] * tm.fn('sin', P['a_wz'] * pi * z / L)
    if not transient:
        f['u'] = P['u_r'] * P['u_z'] * (tm.fn('cos', P['a_ur'] * pi * r / L) - 1) * tm.fn('sin', P['a_uz'] * pi * z / L)
    else:
        f['rho'] = f['rho'] + P['rho_t'] * tm.fn('sin', P['a_rhot'] * pi * t / L)
        f['p'] = f['p'] + P['p_t'] * tm.fn('cos', P['a_pt'] * pi * t / L)
        f['w'] = f['w'] + P['w_t'] * tm.fn('cos', P['a_wt'] * pi * t / L)
        f['u'] = P['u_r'] * (tm.fn('cos', P['a_ur'] * pi * r / L) - 1) * (P['u_z'] * tm.fn('sin', P['a_uz'] * pi * z / L) + P['u_t'] * tm.fn('cos', P['a_ut'] * pi * t / L))
    return f


def axi_cns_fields(P):
    from pde import COORD
    r, z = COORD['r'], COORD['z']
    pi, L = tm.PI, P['L']
    f = {}
    f['u'] = P['u_1'] * (tm.fn('cos', P['a_ur'] * pi * r / L) - 1) * tm.fn('sin', P['a_uz'] * pi * z / L)
    f['w'] = P['w_0'] + P['w_1'] * tm.fn('cos', P['a_wr'] * pi * r / L) * tm.fn('sin', P['a_wz'] * pi * z / L)
    f['p'] = P['p_0'] + P['p_1'] * tm.fn('sin', P['a_pr'] * pi * r / L) * tm.fn('cos', P['a_pz'] * pi * z / L)
    f['rho'] = P['rho_0'] + P['rho_1'] * tm.fn('cos', P['a_rhor'] * pi * r / L) * tm.fn('sin', P['a_rhoz'] * pi * z / L)
    return f
