"""Documented manufactured fields for solutions without (complete) exact evaluators (DESIGN.md §3.4)."""
import terms as tm
from pde import X, Y, Z, TT


def heat_T(P, dim, steady):
    """T = cos(A_x x + A_t t) cos(B_y y + B_t t) cos(C_z z + C_t t) cos(D_t t), restricted to the
    solution's dimension; steady solutions have no temporal parameters."""
    g = lambda n: P.get(n, tm.ZERO)
    T = tm.fn('cos', g('A_x') * X + g('A_t') * TT)
    if dim >= 2:
        T = T * tm.fn('cos', g('B_y') * Y + g('B_t') * TT)
    if dim >= 3:
        T = T * tm.fn('cos', g('C_z') * Z + g('C_t') * TT)
    if not steady:
        T = T * tm.fn('cos', g('D_t') * TT)
    return T
