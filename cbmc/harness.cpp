// CBMC harness for C13: the verbatim /repo/src/masa_map.cpp against the reference normaliser.
#include "masa_map.cpp"

char nondet_char();
unsigned nondet_unsigned();

int main() {
  std::string in;
#ifdef VERIF_CONCRETE
  // one CONCRETE long input (beyond the symbolic length bound): VERIF_N is its length
  static const char lit[] = VERIF_CONCRETE;
  unsigned n = VERIF_N;
  in.len = n;
  for (unsigned i = 0; i < VERIF_N; i++) in.buf[i] = lit[i];
  in.buf[n] = 0;
#else
  unsigned n = nondet_unsigned();
  __CPROVER_assume(n <= VERIF_N);
  in.len = n;
  for (unsigned i = 0; i < VERIF_N; i++) {
    char c = nondet_char();
    __CPROVER_assume(c != 0);
#ifdef VERIF_ASCII
    __CPROVER_assume(c > 0);
#endif
    in.buf[i] = (i < n) ? c : 0;
  }
  in.buf[n] = 0;
#endif
  // reference: lower-case, delete every '-' and every ' '
  char ref[VERIF_N + 1];
  unsigned m = 0;
  for (unsigned i = 0; i < VERIF_N; i++) {
    if (i < n) {
      char c = in.buf[i];
      if (c >= 'A' && c <= 'Z') c = c + ('a' - 'A');
      if (c != '-' && c != ' ') ref[m++] = c;
    }
  }
  std::string s = in;
  MASA::masa_map(&s);
#ifdef WITNESS
  __CPROVER_assert(0, "WITNESS: end of harness reachable");
#else
  __CPROVER_assert(s.len == m, "masa_map: length equals the reference normal form");
  for (unsigned i = 0; i < VERIF_N; i++)
    if (i < m) __CPROVER_assert(s.buf[i] == ref[i], "masa_map: characters equal the reference normal form");
#endif
  return 0;
}
