#ifndef VERIF_CBMC_stdio_h
#define VERIF_CBMC_stdio_h
#endif
