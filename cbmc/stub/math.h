#ifndef VERIF_CBMC_math_h
#define VERIF_CBMC_math_h
#endif
