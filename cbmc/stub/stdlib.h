#ifndef VERIF_CBMC_STDLIB
#define VERIF_CBMC_STDLIB
extern "C" void exit(int);
#ifndef NULL
#define NULL 0
#endif
#endif
