#ifndef VERIF_CBMC_assert_h
#define VERIF_CBMC_assert_h
#endif
