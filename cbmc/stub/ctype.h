#ifndef VERIF_CBMC_CTYPE_H
#define VERIF_CBMC_CTYPE_H
#include <cctype>
#endif
